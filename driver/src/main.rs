// ccfacts — rustc_private driver that dumps the type-checked program (MIR,
// ADTs, impls) of each workspace crate as JSON facts for the Python rule
// engines in /verif/analysis.  Used as RUSTC_WORKSPACE_WRAPPER under
// `cargo +nightly check`; never runs any ciphercore code.
#![feature(rustc_private)]
#![feature(box_patterns)]

extern crate rustc_abi;
extern crate rustc_driver;
extern crate rustc_hir;
extern crate rustc_interface;
extern crate rustc_middle;
extern crate rustc_span;

use rustc_driver::Compilation;
use rustc_hir::def::DefKind;
use rustc_hir::def_id::DefId;
use rustc_middle::mir::*;
use rustc_middle::ty::print::with_no_trimmed_paths;
use rustc_middle::ty::{self, Instance, Ty, TyCtxt, TypingEnv};
use std::fmt::Write as _;

fn esc(s: &str, out: &mut String) {
    out.push('"');
    for c in s.chars() {
        match c {
            '"' => out.push_str("\\\""),
            '\\' => out.push_str("\\\\"),
            '\n' => out.push_str("\\n"),
            '\r' => out.push_str("\\r"),
            '\t' => out.push_str("\\t"),
            c if (c as u32) < 0x20 => {
                let _ = write!(out, "\\u{:04x}", c as u32);
            }
            c => out.push(c),
        }
    }
    out.push('"');
}

fn q(s: &str) -> String {
    let mut o = String::new();
    esc(s, &mut o);
    o
}

struct Dumper<'tcx> {
    tcx: TyCtxt<'tcx>,
}

impl<'tcx> Dumper<'tcx> {
    fn path(&self, d: DefId) -> String {
        with_no_trimmed_paths!(self.tcx.def_path_str(d))
    }

    fn ty_str(&self, t: Ty<'tcx>) -> String {
        with_no_trimmed_paths!(format!("{}", t))
    }

    /// def-path of the ADT behind references / raw pointers / Box-free peeling.
    fn adt_of(&self, t: Ty<'tcx>) -> Option<DefId> {
        let mut t = t;
        loop {
            match t.kind() {
                ty::Ref(_, inner, _) => t = *inner,
                ty::RawPtr(inner, _) => t = *inner,
                ty::Adt(def, _) => return Some(def.did()),
                _ => return None,
            }
        }
    }

    fn span_loc(&self, sp: rustc_span::Span) -> (String, usize) {
        let sp = sp.source_callsite();
        let sm = self.tcx.sess.source_map();
        let loc = sm.lookup_char_pos(sp.lo());
        let name = match &loc.file.name {
            rustc_span::FileName::Real(r) => match r.local_path() {
                Some(p) => p.to_string_lossy().to_string(),
                None => format!("{:?}", loc.file.name),
            },
            other => format!("{:?}", other),
        };
        (name, loc.line)
    }

    fn place(&self, body: &Body<'tcx>, p: &Place<'tcx>) -> String {
        let mut s = String::new();
        let _ = write!(s, "[{}", p.local.as_u32());
        for (base, elem) in p.iter_projections() {
            s.push(',');
            match elem {
                ProjectionElem::Deref => s.push_str("\"*\""),
                ProjectionElem::Field(f, _) => {
                    let bty = base.ty(body, self.tcx);
                    let mut name = String::new();
                    if let ty::Adt(def, _) = bty.ty.kind() {
                        let v = match bty.variant_index {
                            Some(v) => Some(v),
                            None if def.is_struct() || def.is_union() => {
                                Some(rustc_abi::VariantIdx::from_u32(0))
                            }
                            None => None,
                        };
                        if let Some(v) = v {
                            let vd = def.variant(v);
                            if let Some(fd) = vd.fields.get(f) {
                                name = fd.name.to_string();
                            }
                        }
                    }
                    s.push_str(&q(&format!("f{}:{}", f.as_u32(), name)));
                }
                ProjectionElem::Downcast(name, v) => {
                    let n = name.map(|x| x.to_string()).unwrap_or_default();
                    s.push_str(&q(&format!("d{}:{}", v.as_u32(), n)));
                }
                ProjectionElem::Index(l) => {
                    s.push_str(&q(&format!("i{}", l.as_u32())));
                }
                ProjectionElem::ConstantIndex { offset, from_end, .. } => {
                    s.push_str(&q(&format!("c{}{}", offset, if from_end { "e" } else { "" })));
                }
                ProjectionElem::Subslice { .. } => s.push_str("\"s\""),
                _ => s.push_str("\"o\""),
            }
        }
        s.push(']');
        s
    }

    fn operand(&self, body: &Body<'tcx>, op: &Operand<'tcx>) -> String {
        match op {
            Operand::Copy(p) => format!("[\"c\",{}]", self.place(body, p)),
            Operand::Move(p) => format!("[\"m\",{}]", self.place(body, p)),
            Operand::Constant(c) => {
                let ty = c.const_.ty();
                let mut fnpath = String::from("null");
                match ty.kind() {
                    ty::FnDef(d, _) => fnpath = q(&self.path(*d)),
                    ty::Closure(d, _) => fnpath = q(&self.path(*d)),
                    _ => {}
                }
                let val = with_no_trimmed_paths!(format!("{}", c.const_));
                // try to obtain a plain integer for scalar constants
                let mut ival = String::from("null");
                if ty.is_integral() || ty.is_bool() || ty.is_char() {
                    let env = TypingEnv::fully_monomorphized();
                    if let Some(si) = c.const_.try_eval_scalar_int(self.tcx, env) {
                        let size = si.size();
                        let bits = si.to_bits(size);
                        if ty.is_signed() {
                            let v = size.sign_extend(bits);
                            ival = format!("\"{}\"", v);
                        } else {
                            ival = format!("\"{}\"", bits);
                        }
                    }
                }
                format!(
                    "[\"k\",{},{},{},{}]",
                    q(&self.ty_str(ty)),
                    q(&val),
                    fnpath,
                    ival
                )
            }
            #[allow(unreachable_patterns)]
            _ => "[\"o\"]".to_string(),
        }
    }

    fn rvalue(&self, body: &Body<'tcx>, rv: &Rvalue<'tcx>) -> String {
        match rv {
            Rvalue::Use(op, ..) => format!("[\"use\",{}]", self.operand(body, op)),
            Rvalue::Ref(_, bk, p) => {
                let m = match bk {
                    BorrowKind::Mut { .. } => "mut",
                    BorrowKind::Shared => "shared",
                    _ => "fake",
                };
                format!("[\"ref\",\"{}\",{}]", m, self.place(body, p))
            }
            Rvalue::RawPtr(k, p) => {
                format!("[\"raw\",{},{}]", q(&format!("{:?}", k)), self.place(body, p))
            }
            Rvalue::BinaryOp(op, box (a, b)) => format!(
                "[\"bin\",{},{},{}]",
                q(&format!("{:?}", op)),
                self.operand(body, a),
                self.operand(body, b)
            ),
            Rvalue::UnaryOp(op, a) => {
                format!("[\"un\",{},{}]", q(&format!("{:?}", op)), self.operand(body, a))
            }
            Rvalue::Cast(kind, op, t) => format!(
                "[\"cast\",{},{},{}]",
                q(&format!("{:?}", kind)),
                self.operand(body, op),
                q(&self.ty_str(*t))
            ),
            Rvalue::Aggregate(box kind, ops) => {
                let k = match kind {
                    AggregateKind::Adt(d, v, _, _, _) => {
                        let def = self.tcx.adt_def(*d);
                        let vd = def.variant(*v);
                        let fields: Vec<String> =
                            vd.fields.iter().map(|f| q(&f.name.to_string())).collect();
                        format!(
                            "{{\"k\":\"adt\",\"adt\":{},\"v\":{},\"vn\":{},\"fields\":[{}]}}",
                            q(&self.path(*d)),
                            v.as_u32(),
                            q(&vd.name.to_string()),
                            fields.join(",")
                        )
                    }
                    AggregateKind::Tuple => "{\"k\":\"tuple\"}".to_string(),
                    AggregateKind::Array(_) => "{\"k\":\"array\"}".to_string(),
                    AggregateKind::Closure(d, _) => {
                        format!("{{\"k\":\"closure\",\"def\":{}}}", q(&self.path(*d)))
                    }
                    _ => "{\"k\":\"other\"}".to_string(),
                };
                let os: Vec<String> = ops.iter().map(|o| self.operand(body, o)).collect();
                format!("[\"agg\",{},[{}]]", k, os.join(","))
            }
            Rvalue::Discriminant(p) => {
                let t = p.ty(body, self.tcx).ty;
                let adt = match self.adt_of(t) {
                    Some(d) => q(&self.path(d)),
                    None => "null".to_string(),
                };
                format!("[\"discr\",{},{}]", self.place(body, p), adt)
            }
            Rvalue::CopyForDeref(p) => format!("[\"use\",[\"c\",{}]]", self.place(body, p)),
            Rvalue::Repeat(op, _) => format!("[\"repeat\",{}]", self.operand(body, op)),
            other => format!("[\"other\",{}]", q(&format!("{:?}", other))),
        }
    }

    fn callee(&self, body_def: DefId, func: &Operand<'tcx>, body: &Body<'tcx>) -> String {
        if let Operand::Constant(c) = func {
            if let ty::FnDef(d, args) = c.const_.ty().kind() {
                let def = self.path(*d);
                let gargs: Vec<String> = args
                    .iter()
                    .map(|a| q(&with_no_trimmed_paths!(format!("{}", a))))
                    .collect();
                let mut res = String::from("null");
                let env = TypingEnv::post_analysis(self.tcx, body_def);
                if let Ok(Some(inst)) = Instance::try_resolve(self.tcx, env, *d, args) {
                    let rd = inst.def_id();
                    if rd != *d {
                        res = q(&self.path(rd));
                    }
                }
                // trait of the callee, if it is a trait method
                let mut tr = String::from("null");
                if let Some(t) = self.tcx.trait_of_assoc(*d) {
                    tr = q(&self.path(t));
                }
                return format!(
                    "{{\"def\":{},\"ga\":[{}],\"res\":{},\"trait\":{}}}",
                    q(&def),
                    gargs.join(","),
                    res,
                    tr
                );
            }
        }
        format!("{{\"ptr\":{}}}", self.operand(body, func))
    }

    fn bb(b: BasicBlock) -> u32 {
        b.as_u32()
    }

    fn unwind(u: &UnwindAction) -> String {
        match u {
            UnwindAction::Cleanup(b) => format!("{}", b.as_u32()),
            _ => "null".to_string(),
        }
    }

    fn terminator(&self, body_def: DefId, body: &Body<'tcx>, t: &Terminator<'tcx>) -> String {
        let (_, line) = self.span_loc(t.source_info.span);
        let exp = t.source_info.span.from_expansion();
        let core = match &t.kind {
            TerminatorKind::Goto { target } => format!("\"k\":\"goto\",\"t\":{}", Self::bb(*target)),
            TerminatorKind::SwitchInt { discr, targets } => {
                let arms: Vec<String> = targets
                    .iter()
                    .map(|(v, b)| format!("[\"{}\",{}]", v, Self::bb(b)))
                    .collect();
                format!(
                    "\"k\":\"switch\",\"op\":{},\"arms\":[{}],\"else\":{}",
                    self.operand(body, discr),
                    arms.join(","),
                    Self::bb(targets.otherwise())
                )
            }
            TerminatorKind::Return => "\"k\":\"ret\"".to_string(),
            TerminatorKind::Unreachable => "\"k\":\"unreachable\"".to_string(),
            TerminatorKind::UnwindResume | TerminatorKind::UnwindTerminate(_) => {
                "\"k\":\"resume\"".to_string()
            }
            TerminatorKind::Drop { place, target, unwind, .. } => format!(
                "\"k\":\"drop\",\"p\":{},\"t\":{},\"u\":{}",
                self.place(body, place),
                Self::bb(*target),
                Self::unwind(unwind)
            ),
            TerminatorKind::Call { func, args, destination, target, unwind, .. } => {
                let a: Vec<String> = args.iter().map(|x| self.operand(body, &x.node)).collect();
                format!(
                    "\"k\":\"call\",\"f\":{},\"args\":[{}],\"dest\":{},\"t\":{},\"u\":{}",
                    self.callee(body_def, func, body),
                    a.join(","),
                    self.place(body, destination),
                    match target {
                        Some(b) => format!("{}", Self::bb(*b)),
                        None => "null".to_string(),
                    },
                    Self::unwind(unwind)
                )
            }
            TerminatorKind::TailCall { func, args, .. } => {
                let a: Vec<String> = args.iter().map(|x| self.operand(body, &x.node)).collect();
                format!(
                    "\"k\":\"call\",\"f\":{},\"args\":[{}],\"dest\":[0],\"t\":null,\"u\":null,\"tail\":true",
                    self.callee(body_def, func, body),
                    a.join(",")
                )
            }
            TerminatorKind::Assert { cond, expected, msg, target, unwind } => {
                let kind = match &**msg {
                    AssertKind::BoundsCheck { .. } => "bounds",
                    AssertKind::Overflow(..) => "overflow",
                    AssertKind::OverflowNeg(..) => "overflow",
                    AssertKind::DivisionByZero(..) => "divzero",
                    AssertKind::RemainderByZero(..) => "remzero",
                    _ => "other",
                };
                format!(
                    "\"k\":\"assert\",\"cond\":{},\"exp\":{},\"msg\":\"{}\",\"t\":{},\"u\":{}",
                    self.operand(body, cond),
                    expected,
                    kind,
                    Self::bb(*target),
                    Self::unwind(unwind)
                )
            }
            TerminatorKind::FalseEdge { real_target, .. } => {
                format!("\"k\":\"goto\",\"t\":{}", Self::bb(*real_target))
            }
            TerminatorKind::FalseUnwind { real_target, .. } => {
                format!("\"k\":\"goto\",\"t\":{}", Self::bb(*real_target))
            }
            other => format!("\"k\":\"other\",\"dbg\":{}", q(&format!("{:?}", other))),
        };
        format!("{{{},\"l\":{},\"x\":{}}}", core, line, exp)
    }

    fn mir_json(&self, def: DefId, body: &Body<'tcx>, out: &mut String) {
        // locals
        out.push_str("\"locals\":[");
        for (i, ld) in body.local_decls.iter().enumerate() {
            if i > 0 {
                out.push(',');
            }
            let adt = match self.adt_of(ld.ty) {
                Some(d) => q(&self.path(d)),
                None => "null".to_string(),
            };
            let _ = write!(out, "[{},{}]", q(&self.ty_str(ld.ty)), adt);
        }
        out.push_str("],\"vars\":[");
        let mut first = true;
        for vdi in body.var_debug_info.iter() {
            if let VarDebugInfoContents::Place(p) = &vdi.value {
                if !first {
                    out.push(',');
                }
                first = false;
                let _ = write!(out, "[{},{}]", q(&vdi.name.to_string()), self.place(body, p));
            }
        }
        out.push_str("],\"blocks\":[");
        for (bi, bb) in body.basic_blocks.iter_enumerated() {
            if bi.as_u32() > 0 {
                out.push(',');
            }
            out.push_str("{\"s\":[");
            let mut firsts = true;
            for st in bb.statements.iter() {
                let (_, l) = self.span_loc(st.source_info.span);
                let x = st.source_info.span.from_expansion();
                let s = match &st.kind {
                    StatementKind::Assign(box (p, rv)) => Some(format!(
                        "[\"=\",{},{},{},{}]",
                        self.place(body, p),
                        self.rvalue(body, rv),
                        l,
                        x
                    )),
                    StatementKind::SetDiscriminant { place, variant_index } => Some(format!(
                        "[\"setdiscr\",{},{},{},{}]",
                        self.place(body, place),
                        variant_index.as_u32(),
                        l,
                        x
                    )),
                    _ => None,
                };
                if let Some(s) = s {
                    if !firsts {
                        out.push(',');
                    }
                    firsts = false;
                    out.push_str(&s);
                }
            }
            out.push_str("],\"t\":");
            match &bb.terminator {
                Some(t) => out.push_str(&self.terminator(def, body, t)),
                None => out.push_str("{\"k\":\"none\"}"),
            }
            let _ = write!(out, ",\"c\":{}}}", bb.is_cleanup);
        }
        out.push(']');
    }

    fn body(&self, def: DefId, out: &mut String) {
        let tcx = self.tcx;
        let kind = tcx.def_kind(def);
        let body = tcx.optimized_mir(def);
        let (file, line) = self.span_loc(tcx.def_span(def));
        let kind_s = match kind {
            DefKind::Fn => "fn",
            DefKind::AssocFn => "assoc",
            DefKind::Closure => "closure",
            _ => "other",
        };
        let vis = match kind {
            DefKind::Fn | DefKind::AssocFn => {
                let v = tcx.visibility(def);
                if v.is_public() {
                    "pub".to_string()
                } else {
                    match v {
                        ty::Visibility::Restricted(m) => format!("in:{}", self.path(m)),
                        _ => "pub".to_string(),
                    }
                }
            }
            _ => "na".to_string(),
        };
        // parent impl
        let mut impl_s = String::from("null");
        if let DefKind::AssocFn = kind {
            let parent = tcx.parent(def);
            if let DefKind::Impl { of_trait } = tcx.def_kind(parent) {
                let self_ty = tcx.type_of(parent).instantiate_identity().skip_norm_wip();
                let tr = if of_trait {
                    let tref = tcx.impl_trait_ref(parent).instantiate_identity().skip_norm_wip();
                    q(&self.path(tref.def_id))
                } else {
                    "null".to_string()
                };
                let adt = match self.adt_of(self_ty) {
                    Some(d) => q(&self.path(d)),
                    None => "null".to_string(),
                };
                impl_s = format!(
                    "{{\"self\":{},\"adt\":{},\"trait\":{}}}",
                    q(&self.ty_str(self_ty)),
                    adt,
                    tr
                );
            } else if let DefKind::Trait = tcx.def_kind(parent) {
                impl_s = format!("{{\"self\":\"Self\",\"adt\":null,\"trait\":{},\"default\":true}}", q(&self.path(parent)));
            }
        }
        let parent_fn = if let DefKind::Closure = kind {
            q(&self.path(tcx.typeck_root_def_id(def)))
        } else {
            "null".to_string()
        };
        let _ = write!(
            out,
            "{{\"id\":{},\"kind\":\"{}\",\"file\":{},\"line\":{},\"vis\":{},\"impl\":{},\"root\":{},\"argc\":{},",
            q(&self.path(def)),
            kind_s,
            q(&file),
            line,
            q(&vis),
            impl_s,
            parent_fn,
            body.arg_count
        );
        self.mir_json(def, body, out);
        // promoted constants (e.g. `&SliceElement::Ellipsis` used as an operand)
        out.push_str(",\"promoted\":[");
        let promoted = tcx.promoted_mir(def);
        for (pi, pb) in promoted.iter().enumerate() {
            if pi > 0 {
                out.push(',');
            }
            out.push('{');
            self.mir_json(def, pb, out);
            out.push('}');
        }
        out.push_str("]}");
    }

    fn adts(&self, out: &mut String) {
        let tcx = self.tcx;
        let mut first = true;
        for id in tcx.hir_crate_items(()).definitions() {
            let def = id.to_def_id();
            match tcx.def_kind(def) {
                DefKind::Struct | DefKind::Enum | DefKind::Union => {}
                _ => continue,
            }
            let adt = tcx.adt_def(def);
            if !first {
                out.push(',');
            }
            first = false;
            let (file, line) = self.span_loc(tcx.def_span(def));
            let _ = write!(
                out,
                "{{\"path\":{},\"kind\":\"{}\",\"file\":{},\"line\":{},\"variants\":[",
                q(&self.path(def)),
                if adt.is_enum() { "enum" } else if adt.is_struct() { "struct" } else { "union" },
                q(&file),
                line
            );
            for (vi, v) in adt.variants().iter_enumerated() {
                if vi.as_u32() > 0 {
                    out.push(',');
                }
                let _ = write!(out, "{{\"name\":{},\"idx\":{},\"fields\":[", q(&v.name.to_string()), vi.as_u32());
                for (fi, f) in v.fields.iter().enumerate() {
                    if fi > 0 {
                        out.push(',');
                    }
                    let fty = tcx.type_of(f.did).instantiate_identity().skip_norm_wip();
                    let fadt = match self.adt_of(fty) {
                        Some(d) => q(&self.path(d)),
                        None => "null".to_string(),
                    };
                    let _ = write!(
                        out,
                        "{{\"name\":{},\"ty\":{},\"adt\":{},\"pub\":{}}}",
                        q(&f.name.to_string()),
                        q(&self.ty_str(fty)),
                        fadt,
                        f.vis.is_public()
                    );
                }
                out.push_str("]}");
            }
            out.push_str("]}");
        }
    }

    fn impls(&self, out: &mut String) {
        let tcx = self.tcx;
        let mut first = true;
        for id in tcx.hir_crate_items(()).definitions() {
            let def = id.to_def_id();
            let of_trait = match tcx.def_kind(def) {
                DefKind::Impl { of_trait } => of_trait,
                _ => continue,
            };
            if !first {
                out.push(',');
            }
            first = false;
            let self_ty = tcx.type_of(def).instantiate_identity().skip_norm_wip();
            let tr = if of_trait {
                let tref = tcx.impl_trait_ref(def).instantiate_identity().skip_norm_wip();
                q(&self.path(tref.def_id))
            } else {
                "null".to_string()
            };
            let adt = match self.adt_of(self_ty) {
                Some(d) => q(&self.path(d)),
                None => "null".to_string(),
            };
            let derived = tcx.is_automatically_derived(def);
            let fns: Vec<String> = tcx
                .associated_item_def_ids(def)
                .iter()
                .map(|d| q(&self.path(*d)))
                .collect();
            let (file, line) = self.span_loc(tcx.def_span(def));
            let _ = write!(
                out,
                "{{\"trait\":{},\"self\":{},\"adt\":{},\"derived\":{},\"fns\":[{}],\"file\":{},\"line\":{}}}",
                tr,
                q(&self.ty_str(self_ty)),
                adt,
                derived,
                fns.join(","),
                q(&file),
                line
            );
        }
    }
}

struct Cb;

impl rustc_driver::Callbacks for Cb {
    fn after_analysis<'tcx>(
        &mut self,
        _c: &rustc_interface::interface::Compiler,
        tcx: TyCtxt<'tcx>,
    ) -> Compilation {
        let out_dir = match std::env::var("CCFACTS_OUT") {
            Ok(d) => d,
            Err(_) => return Compilation::Continue,
        };
        let crate_name = tcx.crate_name(rustc_hir::def_id::LOCAL_CRATE).to_string();
        let is_test = tcx.sess.opts.test;
        let ctype = if tcx.crate_types().iter().any(|t| matches!(t, rustc_session_types::Executable)) {
            "bin"
        } else {
            "lib"
        };
        let d = Dumper { tcx };
        let mut out = String::with_capacity(64 << 20);
        let _ = write!(
            out,
            "{{\"crate\":{},\"ctype\":\"{}\",\"test\":{},\"bodies\":[",
            q(&crate_name),
            ctype,
            is_test
        );
        let mut first = true;
        let mut n = 0usize;
        for ldef in tcx.hir_body_owners() {
            let def = ldef.to_def_id();
            match tcx.def_kind(def) {
                DefKind::Fn | DefKind::AssocFn | DefKind::Closure => {}
                _ => continue,
            }
            if !first {
                out.push(',');
            }
            first = false;
            d.body(def, &mut out);
            out.push('\n');
            n += 1;
        }
        out.push_str("],\"adts\":[");
        d.adts(&mut out);
        out.push_str("],\"impls\":[");
        d.impls(&mut out);
        let _ = write!(out, "],\"nbodies\":{}}}", n);
        let fname = format!("{}/{}-{}{}.json", out_dir, crate_name, ctype, if is_test { "-test" } else { "" });
        std::fs::write(&fname, out).expect("ccfacts: cannot write fact file");
        Compilation::Continue
    }
}

mod rustc_session_types {
    pub use rustc_session::config::CrateType::*;
}
extern crate rustc_session;

fn main() {
    let mut args: Vec<String> = std::env::args().collect();
    // RUSTC_WORKSPACE_WRAPPER mode: argv[1] is the path of the real rustc.
    if args.len() > 1 && (args[1].ends_with("rustc") || args[1].contains("/rustc")) {
        args.remove(1);
    }
    let mut cb = Cb;
    rustc_driver::run_compiler(&args, &mut cb);
}
