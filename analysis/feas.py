"""Infeasible-edge pruning: correlation between `x.is_err()/is_ok()/is_some()/is_none()` tests and later
`?` / match discriminant switches on the same (single-definition) local.  Only removes edges that are
provably never taken, so every must-pass verdict stays sound."""
from .facts import callee_name
from . import cfg as C

_TESTS = {
    "::is_err": ("Result", 1), "::is_ok": ("Result", 0),
    "::is_some": ("Option", 1), "::is_none": ("Option", 0),
}


def infeasible_edges(body, flow):
    key = "infeasible"
    if key in body._cache:
        return body._cache[key]
    removed = set()
    npreds = {}
    for a, b in C.edges(body):
        npreds[b] = npreds.get(b, 0) + 1
    # knowledge: list of (block_from_which_known, local X, variant index of X)
    facts = []
    for bb in range(body.nblocks()):
        if body.term(bb)["k"] != "switch" or body.is_cleanup(bb):
            continue
        src = C.switch_source(body, bb)
        if not src or src["kind"] != "call":
            continue
        ct = body.term(src["bb"])
        cn = callee_name(ct) or ""
        hit = None
        for suf, (ty, var_when_true) in _TESTS.items():
            if cn.endswith(suf) and cn.startswith(("std::result::Result", "std::option::Option",
                                                   "core::result::Result", "core::option::Option")):
                hit = (ty, var_when_true)
        if not hit or not ct["args"] or ct["args"][0][0] == "k":
            continue
        x = flow.root_of(ct["args"][0][1][0])
        if len(flow.defs_of.get(x, [])) != 1:
            continue
        ty, var_true = hit
        t = body.term(bb)
        arms = dict(t["arms"])
        tgt_true = arms.get("1", t["else"])
        tgt_false = arms.get("0", t["else"])
        if tgt_true == tgt_false:
            continue
        for outcome, tgt in ((True, tgt_true), (False, tgt_false)):
            val = outcome if not src["neg"] else (not outcome)
            variant = var_true if val else 1 - var_true
            # Result: Ok=0 Err=1 ; Option: None=0 Some=1
            if npreds.get(tgt, 0) == 1:
                facts.append((tgt, x, ty, variant))
    if facts:
        dom = C.dominators(body)
        for bb in range(body.nblocks()):
            if body.term(bb)["k"] != "switch" or body.is_cleanup(bb):
                continue
            src = C.switch_source(body, bb)
            if not src or src["kind"] != "discr":
                continue
            pl = src["place"]
            l = pl[0]
            via_branch = False
            x = None
            ds = flow.defs_of.get(l, [])
            if len(ds) == 1:
                _, db, j = flow.defs[ds[0]]
                if db >= 0 and j is None:
                    ct = body.term(db)
                    if (callee_name(ct) or "").endswith("::branch") and ct["args"] and ct["args"][0][0] != "k":
                        via_branch = True
                        x = flow.root_of(ct["args"][0][1][0])
            if x is None:
                x = flow.root_of(l)
            for (kb, kx, ty, variant) in facts:
                if kx != x or bb not in dom or kb not in dom[bb]:
                    continue
                if via_branch:
                    # Ok/Some -> Continue(0); Err/None -> Break(1)
                    good = (variant == 0) if ty == "Result" else (variant == 1)
                    keep = 0 if good else 1
                else:
                    keep = variant
                removed |= C.variant_switch_removed(body, bb, keep)
    body._cache[key] = removed
    return removed
