"""E0 — run the ccfacts driver over /repo's current working tree (cached by tree hash)."""
import fcntl, hashlib, os, shutil, subprocess, sys, time, glob

VERIF = os.path.dirname(os.path.dirname(os.path.abspath(__file__)))
REPO = os.environ.get("VERIF_REPO", "/repo")
CACHE = os.path.join(VERIF, ".cache")
DRIVER_DIR = os.path.join(VERIF, "driver")
DRIVER = os.path.join(DRIVER_DIR, "target", "release", "ccfacts")
MEMBERS = ("ciphercore-base", "ciphercore-utils")


def _env():
    e = dict(os.environ)
    e["CARGO_NET_OFFLINE"] = "true"
    return e


def build_driver(force=False):
    src_m = max(os.path.getmtime(p) for p in glob.glob(os.path.join(DRIVER_DIR, "src", "*.rs")))
    if not force and os.path.exists(DRIVER) and os.path.getmtime(DRIVER) >= src_m:
        return
    r = subprocess.run(["cargo", "+nightly", "build", "--release", "--offline"], cwd=DRIVER_DIR,
                       env=_env(), stdout=subprocess.PIPE, stderr=subprocess.STDOUT, text=True)
    if r.returncode != 0:
        sys.stderr.write(r.stdout)
        raise SystemExit("ccfacts driver build failed")


def tree_hash(repo=REPO):
    h = hashlib.sha256()
    files = []
    for root, dirs, fs in os.walk(repo):
        dirs[:] = [d for d in dirs if d not in ("target", ".git", "node_modules")]
        for f in fs:
            if f.endswith(".rs") or f in ("Cargo.toml", "Cargo.lock", "build.rs"):
                files.append(os.path.join(root, f))
    files.sort()
    for p in files:
        h.update(os.path.relpath(p, repo).encode())
        h.update(b"\0")
        with open(p, "rb") as fh:
            h.update(fh.read())
        h.update(b"\0")
    with open(DRIVER, "rb") as fh:
        h.update(hashlib.sha256(fh.read()).digest())
    return h.hexdigest()[:20]


def sysroot():
    return subprocess.check_output(["rustc", "+nightly", "--print", "sysroot"], text=True).strip()


def extract(tier="quick", repo=REPO, verbose=False):
    """returns (facts_dir, tree_hash, info).  Re-runs the driver unless facts for this hash exist."""
    os.makedirs(CACHE, exist_ok=True)
    lock = open(os.path.join(CACHE, "extract.lock"), "w")
    fcntl.flock(lock, fcntl.LOCK_EX)
    try:
        build_driver()
        th = tree_hash(repo)
        want_bins = tier == "thorough"
        out = os.path.join(CACHE, "facts", th)
        done = os.path.join(out, "DONE-bins" if want_bins else "DONE")
        info = {"tree_hash": th, "cached": True}
        if os.path.exists(done) or (not want_bins and os.path.exists(os.path.join(out, "DONE-bins"))):
            try:
                os.utime(out, None)  # mark as recently used for the cache GC
            except OSError:
                pass
            return out, th, info
        info["cached"] = False
        t0 = time.time()
        os.makedirs(out, exist_ok=True)
        target = os.path.join(CACHE, "target")
        # cargo's freshness cache would skip the wrapper: drop the members' fingerprints
        for fp in glob.glob(os.path.join(target, "debug", ".fingerprint", "ciphercore-*")):
            shutil.rmtree(fp, ignore_errors=True)
        env = _env()
        env["LD_LIBRARY_PATH"] = os.path.join(sysroot(), "lib") + ":" + env.get("LD_LIBRARY_PATH", "")
        env["RUSTFLAGS"] = "-Zmir-opt-level=0 -Awarnings"
        env["RUSTC_WORKSPACE_WRAPPER"] = DRIVER
        env["CCFACTS_OUT"] = out
        env["CARGO_TARGET_DIR"] = target
        cmd = ["cargo", "+nightly", "check", "--offline", "-p", "ciphercore-base", "-p", "ciphercore-utils", "--lib"]
        if want_bins:
            cmd.append("--bins")
        r = subprocess.run(cmd, cwd=repo, env=env, stdout=subprocess.PIPE, stderr=subprocess.STDOUT, text=True)
        if r.returncode != 0:
            sys.stderr.write(r.stdout[-4000:])
            shutil.rmtree(out, ignore_errors=True)
            raise SystemExit("extraction failed: /repo does not build (cargo check exit %d)" % r.returncode)
        for need in ("ciphercore_base-lib.json", "ciphercore_utils-lib.json"):
            p = os.path.join(out, need)
            if not os.path.exists(p) or os.path.getmtime(p) < t0 - 1:
                shutil.rmtree(out, ignore_errors=True)
                raise SystemExit("extraction failed: fact file %s was not (re)written" % need)
        open(done, "w").write("ok\n")
        info["extract_s"] = round(time.time() - t0, 1)
        _gc(os.path.join(CACHE, "facts"), keep=out)
        return out, th, info
    finally:
        fcntl.flock(lock, fcntl.LOCK_UN)
        lock.close()


def _gc(root, keep, maxn=12, min_age_s=3600):
    """drop the oldest cached fact dirs; never one that was used within the last hour (another check may be reading it)"""
    now = time.time()
    ds = [os.path.join(root, d) for d in os.listdir(root)]
    ds = [d for d in ds if os.path.isdir(d) and d != keep and now - os.path.getmtime(d) > min_age_s]
    ds.sort(key=os.path.getmtime)
    while len(ds) > maxn - 1:
        shutil.rmtree(ds.pop(0), ignore_errors=True)


if __name__ == "__main__":
    tier = sys.argv[1] if len(sys.argv) > 1 else "quick"
    print(extract(tier))
