"""E9 — comparison/selection terms: an exact finite domain for builders that wire a comparison into a multiplexer.

The builder of Min / Max creates two inputs, one comparison custom operation over them and one Mux custom operation whose
selector is that comparison.  Such a graph touches its two operands only through ONE comparison and a selection, so its
result is decided by the *ordering* of the operands: three cases (first < second, equal, first > second) cover every
width, signedness and broadcast shape.  For each Node-valued call result of the builder we compute a term

    ("in", k) | ("cmp", Op, signed, p, q) | ("not", t) | ("mux", s, x, y) | TOP

over the producer graph (E3 origins) of the builder's MIR, following clones, `?`, vec![..] literals, and crate-local
helpers that only reshape their argument (checked on the helper's body).  Terms are then evaluated under the three
orderings with the documented meaning of the components (the comparison's name, C17.M for the multiplexer).  Anything else
is TOP and is never judged.  Nothing is executed.
"""
from .flow import Flow
from .facts import callee_name
from . import cfg as C

TOP = "TOP"
INPUT = "graphs::Graph::input"
CUSTOM = ("graphs::Graph::custom_op",)
CMP_OPS = {
    "ops::comparisons::GreaterThan": lambda o: o == "gt",
    "ops::comparisons::GreaterThanEqualTo": lambda o: o in ("gt", "eq"),
    "ops::comparisons::LessThan": lambda o: o == "lt",
    "ops::comparisons::LessThanEqualTo": lambda o: o in ("lt", "eq"),
    "ops::comparisons::Equal": lambda o: o == "eq",
    "ops::comparisons::NotEqual": lambda o: o != "eq",
}
MUX = "ops::multiplexer::Mux"
NOT = "ops::comparisons::Not"
RESHAPE = ("graphs::Node::reshape", "graphs::Graph::reshape")
ORDERINGS = ("lt", "eq", "gt")


def vec_components(b, fl, op):
    """[(operand, at)] of a vec![..] literal operand, in order; None when it is not a literal vector"""
    if op[0] == "k":
        return None
    l = op[1][0]
    for _ in range(10):
        ds = fl.defs_of.get(l, [])
        if len(ds) != 1:
            return None
        _, db, dj = fl.defs[ds[0]]
        if db < 0:
            return None
        if dj is None:
            tt = b.term(db)
            if callee_name(tt) == "std::boxed::box_assume_init_into_vec_unsafe":
                r2 = fl.root_of(tt["args"][0][1][0])
                ws = [(wb, wj, rv) for (wb, wj, place, rv) in fl.ptr_writes.get(r2, ()) if rv[0] == "agg" and rv[1].get("k") == "array"]
                if len(ws) == 1:
                    wb, wj, rv = ws[0]
                    return [(o, (wb, wj)) for o in rv[2]]
            return None
        rv = b.stmts(db)[dj][2]
        if rv[0] == "use" and rv[1][0] != "k" and len(rv[1][1]) == 1:
            l = rv[1][1][0]
            continue
        return None
    return None


_SHAPE_ONLY = {}


def shape_only_param(facts, name):
    """for a crate-local helper fn(.., Node, ..) -> Result<Node>: the parameter local whose value the result is, up to
    reshape (every returned Node is the parameter itself or a reshape of it); None otherwise"""
    key = (id(facts), name)
    if key in _SHAPE_ONLY:
        return _SHAPE_ONLY[key]
    _SHAPE_ONLY[key] = None
    h = facts.bodies.get(name)
    if h is None or h.kind == "closure" or "graphs::Node" not in h.local_ty(0):
        return None
    fl = Flow(facts, h)
    rets = C.return_blocks(h)
    ok_rets = [r for r in rets]
    if not ok_rets:
        return None
    params = set()

    def walk(ors, depth=0):
        if depth > 6 or not ors:
            return False
        for o in ors:
            if o[0] == "param" and not o[2] and "graphs::Node" in h.local_ty(o[1]):
                params.add(o[1])
            elif o[0] == "call" and o[2] in RESHAPE:
                t = h.term(o[1])
                if not walk(fl.origins(t["args"][0], (o[1], None)), depth + 1):
                    return False
            elif o[0] == "call" and (o[2] or "").endswith("from_residual"):
                continue      # the error exit of `?`
            elif o[0] in ("call",) and (o[2] or "") in ("errors::Error::new",):
                continue
            else:
                return False
        return True
    for r in ok_rets:
        if not walk(fl.origins([0], (r, None))):
            return None
    if len(params) == 1:
        _SHAPE_ONLY[key] = next(iter(params))
    return _SHAPE_ONLY[key]


class CmpSel:
    def __init__(self, facts, body):
        self.facts, self.b = facts, body
        self.fl = Flow(facts, body, {"graphs::Node::set_as_output": [0], "graphs::Node::set_name": [0]})
        ins = sorted(bb for bb, t in body.calls() if callee_name(t) == INPUT and not body.is_cleanup(bb))
        ok = bool(ins) and all(C.dominates(body, ins[i], ins[i + 1]) for i in range(len(ins) - 1))
        self.inputs = ins if ok else None
        self.memo = {}
        self.why_top = []

    def _top(self, why, bb=None):
        self.why_top.append("%s%s" % (why, " at %s" % self.b.loc(bb) if bb is not None else ""))
        return TOP

    def of_operand(self, op, at, stack=()):
        if op[0] == "k":
            return self._top("constant operand")
        ors = self.fl.origins(op, at)
        calls = {o[1] for o in ors if o[0] == "call"}
        if len(calls) != 1 or any(o[0] != "call" for o in ors):
            return self._top("node with %d producers" % len(ors), at[0])
        return self.of_call(calls.pop(), stack)

    def _custom_kind(self, bb):
        """(adt label, aggregate site) of the custom operation body given to custom_op at bb"""
        b = self.b
        t = b.term(bb)
        for a in t["args"]:
            if a[0] != "k" and "custom_ops::CustomOperation" in b.local_ty(a[1][0]):
                labels = set()
                for o in self.fl.origins(a, (bb, None)):
                    if o[0] == "call" and o[2] == "custom_ops::CustomOperation::new":
                        for o2 in self.fl.origins(b.term(o[1])["args"][0], (o[1], None)):
                            if o2[0] == "agg":
                                labels.add((o2[3], o2[1], o2[2]))
                            else:
                                return None
                    else:
                        return None
                return labels.pop() if len(labels) == 1 else None
        return None

    def _signed_of(self, abb, aj):
        """where the `signed_comparison` field of the comparison aggregate comes from: "self" | ("const", v) | ("neg",) | "?" """
        b = self.b
        rv = b.stmts(abb)[aj][2]
        if rv[0] != "agg" or not rv[2]:
            return "none"
        op = rv[2][0]
        if op[0] == "k":
            return ("const", op[2])
        ors = self.fl.origins(op, (abb, aj))
        if ors and all(o[0] == "param" and o[1] == 1 and o[2] == ("signed_comparison",) for o in ors):
            return "self"
        if ors and all(o[0] == "const" for o in ors):
            return ("const", sorted(str(o[2]) for o in ors)[0])
        # a negation of the receiver's flag
        for o in ors:
            if o[0] in ("other", "un", "bin") and len(o) >= 3:
                s = b.stmts(o[1])[o[2]]
                if s[0] == "=" and s[2][0] == "un" and s[2][1] == "Not":
                    inner = self.fl.origins(s[2][2], (o[1], o[2]))
                    if inner and all(i[0] == "param" and i[1] == 1 and i[2] == ("signed_comparison",) for i in inner):
                        return ("neg",)
        return "?"

    def of_call(self, bb, stack=()):
        if bb in self.memo:
            return self.memo[bb]
        if bb in stack or len(stack) > 30:
            return TOP
        stack = stack + (bb,)
        b = self.b
        t = b.term(bb)
        cn = callee_name(t) or ""
        res = TOP
        if cn == INPUT and self.inputs and bb in self.inputs:
            res = ("in", self.inputs.index(bb))
        elif cn in CUSTOM:
            kind = self._custom_kind(bb)
            vec = None
            for a in t["args"]:
                if a[0] != "k" and "Vec<graphs::Node>" in b.local_ty(a[1][0]):
                    vec = vec_components(b, self.fl, a)
            if kind is None or vec is None:
                res = self._top("custom_op whose operation or argument vector is not a literal", bb)
            else:
                label, abb, aj = kind
                parts = label.split("::")
                if len(parts) >= 2 and parts[-1] == parts[-2]:      # struct aggregates are labelled Adt::Adt
                    label = "::".join(parts[:-1])
                args = [self.of_operand(o, at, stack) for o, at in vec]
                if TOP in args:
                    res = TOP
                elif label in CMP_OPS and len(args) == 2:
                    res = ("cmp", label, self._signed_of(abb, aj), args[0], args[1])
                elif label == MUX and len(args) == 3:
                    res = ("mux", args[0], args[1], args[2])
                elif label == NOT and len(args) == 1:
                    res = ("not", args[0])
                else:
                    res = self._top("custom operation %s outside the domain" % label, bb)
        elif cn in RESHAPE:
            res = self.of_operand(t["args"][0], (bb, None), stack)
        else:
            p = shape_only_param(self.facts, cn)
            if p is not None and p - 1 < len(t["args"]):
                res = self.of_operand(t["args"][p - 1], (bb, None), stack)
            else:
                res = self._top("call to %s outside the domain" % cn, bb)
        self.memo[bb] = res
        return res


def evaluate(term, ordering):
    """value of a term when in0 <ordering> in1: ("in", k) for node terms, bool for selector terms; None if ill-formed"""
    if term == TOP:
        return None
    k = term[0]
    if k == "in":
        return term
    if k == "cmp":
        p, q = evaluate(term[3], ordering), evaluate(term[4], ordering)
        if not (isinstance(p, tuple) and isinstance(q, tuple)):
            return None
        if p == q:
            o = "eq"
        elif (p, q) == (("in", 0), ("in", 1)):
            o = ordering
        elif (p, q) == (("in", 1), ("in", 0)):
            o = {"lt": "gt", "gt": "lt", "eq": "eq"}[ordering]
        else:
            return None
        return CMP_OPS[term[1]](o)
    if k == "not":
        v = evaluate(term[1], ordering)
        return (not v) if isinstance(v, bool) else None
    if k == "mux":
        s = evaluate(term[1], ordering)
        if not isinstance(s, bool):
            return None
        return evaluate(term[2] if s else term[3], ordering)
    return None


def cmps_of(term, out=None):
    out = [] if out is None else out
    if isinstance(term, tuple):
        if term[0] == "cmp":
            out.append(term)
        for x in term[1:]:
            if isinstance(x, tuple):
                cmps_of(x, out)
    return out


def fmt(term):
    if term == TOP:
        return "outside the comparison/selection domain"
    k = term[0]
    if k == "in":
        return "arg%d" % term[1]
    if k == "cmp":
        s = term[2]
        ss = "self.signed_comparison" if s == "self" else ("!self.signed_comparison" if s == ("neg",) else (s[1] if isinstance(s, tuple) else s))
        return "%s[signed=%s](%s, %s)" % (term[1].rsplit("::", 1)[-1], ss, fmt(term[3]), fmt(term[4]))
    if k == "not":
        return "Not(%s)" % fmt(term[1])
    if k == "mux":
        return "Mux(%s, %s, %s)" % (fmt(term[1]), fmt(term[2]), fmt(term[3]))
    return str(term)
