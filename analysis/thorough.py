"""Thorough tier additions: E5 compile-fail witnesses and E6 self-test of the property's rules."""
import json, os, re, shutil, subprocess, sys

VERIF = os.path.dirname(os.path.dirname(os.path.abspath(__file__)))
WITNESS_FOR = {
    "C09": ["NodeCannotBeForged", "InternalsNotCallable"],
    "C11": ["NodeCannotBeForged", "GraphAndContextCannotBeForged", "InternalsNotCallable", "ContextBodyUnreachable"],
    "C12": ["ContextBodyUnreachable", "GraphAndContextCannotBeForged"],
    "C15": ["PrfNotNameable"],
}


def run_witnesses(pid, rep):
    items = WITNESS_FOR.get(pid)
    if not items:
        return
    rid = pid + ".W"
    rep.rule(rid, "compile-fail witnesses (rustdoc compile_fail with error code, each paired with a compiling twin): code outside "
                  "the crate cannot construct Node/Graph/Context, call the node-creating/rollback internals, reach the shared "
                  "context body or name the PRF object - the outside half of the who-may-construct rules")
    wdir = os.path.join(VERIF, "witness")
    shutil.copyfile("/repo/Cargo.lock", os.path.join(wdir, "Cargo.lock"))
    env = dict(os.environ)
    env["CARGO_NET_OFFLINE"] = "true"
    env["CARGO_TARGET_DIR"] = os.path.join(VERIF, ".cache", "witness-target")
    r = subprocess.run(["cargo", "+nightly", "test", "--doc", "--offline"], cwd=wdir, env=env,
                       stdout=subprocess.PIPE, stderr=subprocess.STDOUT, text=True)
    results = {}
    for m in re.finditer(r"^test src/lib\.rs - (\w+) \(line (\d+)\)( - compile fail)? \.\.\. (\w+)", r.stdout, re.M):
        results.setdefault(m.group(1), []).append((int(m.group(2)), bool(m.group(3)), m.group(4)))
    if not results:
        rep.fail(rid, "witness-run", "the witness crate did not build or produced no results: %s" % r.stdout[-600:])
        return
    for it in items:
        rs = results.get(it, [])
        cf = [x for x in rs if x[1]]
        tw = [x for x in rs if not x[1]]
        rep.ob(rid, it, bool(cf) and bool(tw) and all(x[2] == "ok" for x in rs),
               "%d compile-fail witness(es) rejected with the expected error code and %d twin(s) compile" % (len(cf), len(tw))
               if rs and all(x[2] == "ok" for x in rs) else "witness results: %s" % rs, "witness/src/lib.rs")


def run_selftest(pid, rep):
    names = []
    for base in ("seeded", "mutants"):
        bd = os.path.join(VERIF, base)
        if not os.path.isdir(bd):
            continue
        for d in sorted(os.listdir(bd)):
            mp = os.path.join(bd, d, "meta.json")
            if os.path.exists(mp):
                try:
                    if pid in json.load(open(mp)).get("expect", {}):
                        names.append(d)
                except ValueError:
                    pass
    if not names:
        return
    nshard = max(1, min(6, len(names) // 4))
    procs = [subprocess.Popen([sys.executable, os.path.join(VERIF, "tools", "selftest.py"), "--property", pid] + names[i::nshard],
                              cwd=VERIF, stdout=subprocess.PIPE, stderr=subprocess.STDOUT, text=True) for i in range(nshard)]
    outs = [p_.communicate()[0] for p_ in procs]
    res = {}
    for line in "\n".join(outs).splitlines():
        m = re.match(r"^(\S+)\s+(PASS|FAIL)\s", line)
        if m:
            res[m.group(1)] = m.group(2)
    rep.tables["selftest"] = res
    ok = sum(1 for v in res.values() if v == "PASS")
    rep.analysed["selftest_changes_tried"] = len(res)
    rep.analysed["selftest_as_expected"] = ok
    print("SELFTEST %s: %d/%d seeded changes / mutants / benign variants behave as expected" % (pid, ok, len(res)))
    for k, v in sorted(res.items()):
        if v != "PASS":
            print("SELFTEST-MISMATCH %s %s (the checker, not /repo, needs attention)" % (pid, k))


def run(pid, facts, rep):
    run_witnesses(pid, rep)
    run_selftest(pid, rep)
