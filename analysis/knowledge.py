"""E7 — knowledge-set typing of protocol builders (a small ownership type system over the producer graph).

For every Node-valued call result in a builder body we compute (K, exact): K = set of parties certain to be able to
compute the value, `exact` = K is the precise set (every ingredient has a known owner).  Conventions of ABY3 sharings
used by the whole of mpc/**: component j of a replicated sharing and key j of a PRF-key triple are held by parties j and
j-1 (party i holds shares/keys i and i+1).  Judgements are only made on exact values, so imprecision never causes a report.
"""
from .flow import Flow
from .facts import callee_name

ALL = frozenset((0, 1, 2))
OUTPUT_3OF3 = ("MultiplyMPC", "DotMPC", "MatmulMPC", "GemmMPC", "MixedMultiplyMPC")
# helpers whose result is a vector indexed by party with a documented holder convention: "pair" = component j is held by
# parties j and j-1 (keys after generate_prf_key_triple's Send(j, j-1)); "single" = component j is held by party j only
TRIPLE_HELPERS = {
    "mpc::mpc_compiler::generate_prf_key_triple": "pair",
    "mpc::mpc_compiler::get_zero_shares": "single",
    "mpc::mpc_compiler::get_node_shares": "single",
}
EXTRA = {"graphs::Node::add_annotation": [0], "graphs::Node::set_name": [0], "graphs::Node::set_as_output": [0]}
# documented holders of whole protocol arguments (ordinal of the g.input call on its path -> parties), from the protocol's
# own description; everything not listed is "convention depends on use" (inexact)
INPUT_HOLDERS = {
    "<mpc::mpc_truncate::TruncateMPC2K as custom_ops::CustomOperationBody>::instantiate":
        {2: (frozenset((2,)), "k_2 is a PRF key that is held only by party 2 (doc comment of TruncateMPC2K)")},
}


def const_int(op, fl=None, b=None, env=None):
    """literal integer operand, or (with a flow) a constant expression such as `PARTIES as u64 - 1`; `env` gives values to
    fields of self (role fields such as sender_id) as {field name: int}"""
    if op[0] == "k" and op[4] is not None:
        try:
            return int(op[4])
        except ValueError:
            return None
    if op[0] != "k" and fl is not None:
        from . import intexpr as IE
        e = IE.build(fl, b, op)
        if IE.unknown(e):
            return None
        vs = IE.variables(e)
        if not vs:
            return IE.evaluate(e, {})
        if env:
            val = {}
            for v in vs:
                l, projs = v
                names = [str(p_).split(":", 1)[1] for p_ in projs if ":" in str(p_)]
                if l == 1 and len(names) == 1 and names[0] in env:
                    val[v] = env[names[0]]
                elif not projs and ("param", l) in env:
                    val[v] = env[("param", l)]
                else:
                    return None
            return IE.evaluate(e, val)
    return None


class Knowledge:
    def __init__(self, facts, body, parent=None, site=None, call_bb=None, env=None, input_holders=None, param_holders=None):
        """parent/site/call_bb: for a closure body - the Knowledge of the function that creates it, the (bb, j) of the closure
        aggregate (captures) and the block of the particular call whose arguments bind the closure's parameters"""
        self.facts = facts
        self.b = body
        self.fl = Flow(facts, body, EXTRA)
        self.memo = {}
        self.sends = {}   # nop block -> (sender, receiver) literals or None
        self.parent, self.site, self.call_bb = parent, site, call_bb
        self.env = env                    # {role field of self: concrete party} for protocols parameterised by roles
        self.input_holders = input_holders  # {input ordinal: frozenset(parties)} under this env
        self.param_holders = param_holders or {}  # {param local: frozenset(parties) | "triple"} conventions of a helper's parameters
        self._closures = {}
        self._collect_sends()

    # ------------------------------------------------------------------ closures
    def closure_knowledge(self, cname, call_bb):
        """Knowledge of local closure `cname` as called at block call_bb of this body"""
        key = (cname, call_bb)
        if key in self._closures:
            return self._closures[key]
        cb = self.facts.bodies.get(cname)
        site = [(bb, j, rv) for bb, j, place, rv in self.b.assigns()
                if rv[0] == "agg" and rv[1].get("k") == "closure" and rv[1].get("def") == cname]
        kn = Knowledge(self.facts, cb, parent=self, site=site[0], call_bb=call_bb) if cb is not None and len(site) == 1 else None
        self._closures[key] = kn
        return kn

    def _outer(self, o):
        """(K, exact) of an origin of a closure body that refers to the creating function: a capture or a parameter"""
        if self.parent is None:
            return frozenset(), False
        p = self.parent
        if o[0] == "upvar":
            sb, sj, srv = self.site
            if o[1] is None or o[1] >= len(srv[2]):
                return frozenset(), False
            return p.of_operand(srv[2][o[1]], (sb, sj))
        if o[0] == "param" and o[1] >= 2 and self.call_bb is not None:
            t = p.b.term(self.call_bb)
            if len(t["args"]) < 2 or t["args"][1][0] == "k":
                return frozenset(), False
            tl = t["args"][1][1][0]
            for di in p.fl.defs_of.get(tl, []):
                _, db, dj = p.fl.defs[di]
                if db >= 0 and dj is not None:
                    rv = p.b.stmts(db)[dj][2]
                    if rv[0] == "agg" and rv[1].get("k") == "tuple" and o[1] - 2 < len(rv[2]):
                        return p.of_operand(rv[2][o[1] - 2], (db, dj))
        return frozenset(), False

    def _tuple_field(self, op):
        """index of the tuple field through which `op` reads a (Node, Node, ..) result, following copies backwards"""
        if op[0] == "k":
            return None
        l, projs = op[1][0], [x for x in op[1][1:] if x != "*"]
        for _ in range(12):
            fs = [x for x in projs if str(x).startswith("f")]
            if fs:
                try:
                    return int(str(fs[-1])[1:].split(":")[0])
                except ValueError:
                    return None
            ds = self.fl.defs_of.get(l, [])
            if len(ds) != 1:
                return None
            _, db, dj = self.fl.defs[ds[0]]
            if db < 0 or dj is None:
                return None
            rv = self.b.stmts(db)[dj][2]
            if rv[0] == "use" and rv[1][0] != "k":
                l, projs = rv[1][1][0], [x for x in rv[1][1][1:] if x != "*"]
                continue
            if rv[0] in ("ref",):
                l, projs = rv[2][0], [x for x in rv[2][1:] if x != "*"]
                continue
            return None
        return None

    def returned_components(self):
        """operands of the tuple returned as Ok((a, b, ..)) by this (closure) body: [(operand, at)] or None"""
        b, fl = self.b, self.fl
        found = None
        for bb, j, place, rv in b.assigns():
            if place == [0] and rv[0] == "agg" and rv[1].get("vn") == "Ok" and rv[2] and rv[2][0][0] != "k" and not b.is_cleanup(bb):
                tl = rv[2][0][1][0]
                for di in fl.defs_of.get(tl, []):
                    _, db, dj = fl.defs[di]
                    if db >= 0 and dj is not None:
                        r2 = b.stmts(db)[dj][2]
                        if r2[0] == "agg" and r2[1].get("k") == "tuple":
                            if found is not None:
                                return None
                            found = [(o_, (db, dj)) for o_ in r2[2]]
        return found

    def _collect_sends(self):
        b, fl = self.b, self.fl
        for bb, t in b.calls():
            if callee_name(t) != "graphs::Node::add_annotation" or b.is_cleanup(bb):
                continue
            for o in fl.origins(t["args"][1], (bb, None)):
                if o[0] == "agg" and o[3] == "graphs::NodeAnnotation::Send":
                    rv = b.stmts(o[1])[o[2]][2]
                    s, r = const_int(rv[2][0], fl, b, self.env), const_int(rv[2][1], fl, b, self.env)
                    for ro in fl.origins(t["args"][0], (bb, None)):
                        if ro[0] == "call" and ro[2] in ("graphs::Node::nop", "graphs::Graph::nop"):
                            self.sends[ro[1]] = (s, r)

    def node_args(self, t):
        b = self.b
        return [a for a in t["args"] if a[0] != "k" and "graphs::Node" in b.local_ty(a[1][0])]

    def of_operand(self, op, at, stack=()):
        """(K, exact) of a Node-valued operand: meet over its possible producers"""
        ors = self.fl.origins(op, at)
        K, exact = ALL, True
        seen_any = False
        ip = self.fl._index_path(op) if op[0] != "k" else None
        for o in ors:
            if o[0] == "call":
                cb_ = self.facts.bodies.get(o[2])
                if cb_ is not None and cb_.kind == "closure":
                    k2, e2 = frozenset(), False
                    ck = self.closure_knowledge(o[2], o[1])
                    fi = self._tuple_field(op)
                    comps = ck.returned_components() if ck is not None else None
                    if comps and fi is not None and fi < len(comps):
                        k2, e2 = ck.of_operand(comps[fi][0], comps[fi][1])
                else:
                    k2, e2 = self.of_call(o[1], stack)
                if k2 == "triple":
                    j = ip[1][-1] if ip and ip[1] else None
                    if j is None or not (0 <= j <= 2):
                        k2, e2 = frozenset(), False
                    elif e2 == "pair":
                        k2, e2 = frozenset((j, (j - 1) % 3)), True
                    else:
                        k2, e2 = frozenset((j,)), True
            elif o[0] in ("const",):
                continue
            elif o[0] in ("upvar", "param") and self.parent is not None:
                k2, e2 = self._outer(o)
            elif o[0] == "param" and isinstance(self.param_holders.get(o[1]), frozenset) and not o[2]:
                k2, e2 = self.param_holders[o[1]], True
            else:
                k2, e2 = frozenset(), False   # parameter / upvar / unknown: owner not known here
            seen_any = True
            K = K & k2
            exact = exact and e2
        if not seen_any:
            return frozenset(), False
        return K, exact

    def of_call(self, bb, stack=()):
        if bb in self.memo:
            return self.memo[bb]
        if bb in stack:
            return frozenset(), False
        stack = stack + (bb,)
        b, fl = self.b, self.fl
        t = b.term(bb)
        cn = callee_name(t) or ""
        short = cn.split("::")[-1]
        res = (frozenset(), False)
        if cn in ("graphs::Graph::constant", "graphs::Graph::zeros", "graphs::Graph::ones") or short in ("constant_scalar", "zeros_like", "ones_like"):
            res = (ALL, True)
        elif cn in ("graphs::Graph::input",):
            res = (frozenset(), False)            # whole argument of the protocol: convention depends on the use
            conv = INPUT_HOLDERS.get(b.root or b.id)
            if self.input_holders is not None:
                conv = {k_: (v_, "role table") for k_, v_ in self.input_holders.items()}
            if conv:
                from . import cfg as C
                ordinal = sum(1 for b2, t2 in b.calls() if callee_name(t2) == cn and b2 != bb and not b.is_cleanup(b2)
                              and C.dominates(b, b2, bb))
                if ordinal in conv:
                    res = (conv[ordinal][0], True)
        elif short == "tuple_get" and cn.startswith("graphs::"):
            idx = const_int(t["args"][-1], fl, b, self.env)
            src = self.node_args(t)
            if idx is not None and src:
                # component of an argument of the protocol (input) = replicated share / key triple component
                sor = fl.origins(src[0], (bb, None))
                if sor and all(o[0] == "call" and callee_name(b.term(o[1])) == "graphs::Graph::input" for o in sor) and 0 <= idx <= 2:
                    res = (frozenset((idx, (idx - 1) % 3)), True)
                elif sor and all(o[0] == "param" and self.param_holders.get(o[1]) == "triple" and not o[2] for o in sor) and 0 <= idx <= 2:
                    res = (frozenset((idx, (idx - 1) % 3)), True)
                elif sor and all(o[0] == "call" and callee_name(b.term(o[1])) == "graphs::Graph::custom_op" for o in sor) and 0 <= idx <= 2:
                    # result of a sub-protocol: a replicated sharing, or a 3-out-of-3 one for the product protocols
                    three = False
                    for o in sor:
                        tt = b.term(o[1])
                        for oo in fl.origins(tt["args"][1], (o[1], None)):
                            if oo[0] == "agg" and any(oo[3].endswith("::" + n) or ("::" + n + "::") in oo[3] for n in OUTPUT_3OF3):
                                three = True
                            if oo[0] == "call":
                                for o3 in fl.origins(b.term(oo[1])["args"][0], (oo[1], None)) if b.term(oo[1])["args"] else ():
                                    if o3[0] == "agg" and any(o3[3].split("::")[-1] == n for n in OUTPUT_3OF3):
                                        three = True
                    res = (frozenset((idx,)) if three else frozenset((idx, (idx - 1) % 3)), True)
                else:
                    # component of a tuple built here
                    comp = None
                    for o in sor:
                        if o[0] == "call" and (callee_name(b.term(o[1])) or "").endswith("create_tuple"):
                            comp = self.tuple_components(o[1])
                    if comp and idx < len(comp):
                        res = self.of_operand(comp[idx][0], comp[idx][1], stack)
        elif short in ("prf", "permutation_from_prf") and cn.startswith("graphs::"):
            src = self.node_args(t)
            res = self.of_operand(src[0], (bb, None), stack) if src else (frozenset(), False)
        elif short in ("random", "random_permutation") and cn.startswith("graphs::"):
            res = (frozenset(), False)            # generated by one party that the code does not name
        elif short == "nop" and cn.startswith("graphs::"):
            src = self.node_args(t)
            k, e = self.of_operand(src[0], (bb, None), stack) if src else (frozenset(), False)
            sr = self.sends.get(bb)
            if sr and sr[1] is not None:
                k = k | {sr[1]}
            res = (frozenset(k), e and (sr is None or sr[1] is not None))
        elif cn.startswith("graphs::Node::") or cn.startswith("graphs::Graph::"):
            if short in ("custom_op", "call", "iterate"):
                res = (frozenset(), False)
                if short == "custom_op":
                    r_ = self.role_op(bb)
                    if r_ is not None and r_[2] is not None:
                        res = (r_[2], True)
            else:
                src = self.node_args(t)
                K, exact = ALL, True
                for a in src:
                    k2, e2 = self.of_operand(a, (bb, None), stack)
                    K, exact = K & k2, exact and e2
                # vector-of-nodes arguments (create_tuple, concatenate, stack): meet of the elements
                for a in t["args"]:
                    if a[0] != "k" and "Vec<graphs::Node>" in b.local_ty(a[1][0]):
                        k2, e2 = self.of_operand(a, (bb, None), stack)
                        K, exact = K & k2, exact and e2
                res = (frozenset(K), exact) if (src or any("Vec<graphs::Node>" in b.local_ty(a[1][0]) for a in t["args"] if a[0] != "k")) else (frozenset(), False)
        elif cn in TRIPLE_HELPERS:
            res = ("triple", TRIPLE_HELPERS[cn])  # resolved when a component is taken (see of_operand)
        else:
            res = (frozenset(), False)            # helper / closure / protocol: not typed here
        self.memo[bb] = res
        return res

    ROLE_OPS = {}   # filled by the rules: ADT path -> {"roles": (field, field), "inputs": {ordinal: "SRH letters"}, "output": letters}

    def role_op(self, bb):
        """for `custom_op(CustomOperation::new(RoleOp{sender_id: e1, receiver_id: e2}), args)` at block bb:
        (spec, {letter: party}, holders of the result) with the role fields evaluated under this env; None if not such a call"""
        b, fl = self.b, self.fl
        t = b.term(bb)
        for a in t["args"]:
            if a[0] == "k":
                continue
            for o in fl.origins(a, (bb, None)):
                if o[0] != "call" or not (callee_name(b.term(o[1])) or "").endswith("CustomOperation::new"):
                    continue
                for o2 in fl.origins(b.term(o[1])["args"][0], (o[1], None)):
                    if o2[0] != "agg":
                        continue
                    key = [k_ for k_ in self.ROLE_OPS if o2[3] == k_ or o2[3].startswith(k_ + "::")]
                    if not key:
                        continue
                    spec = self.ROLE_OPS[key[0]]
                    rv = b.stmts(o2[1])[o2[2]][2]
                    vals = {}
                    for fname, op_ in zip(rv[1]["fields"], rv[2]):
                        vals[fname] = const_int(op_, fl, b, self.env)
                    s_, r_ = vals.get(spec["roles"][0]), vals.get(spec["roles"][1])
                    if s_ is None or r_ is None or s_ == r_ or not (0 <= s_ <= 2 and 0 <= r_ <= 2):
                        return (spec, None, None)
                    who = {"S": s_, "R": r_, "H": 3 - s_ - r_}
                    return (spec, who, frozenset(who[c] for c in spec["output"]))
        return None

    def tuple_components(self, bb):
        """[(operand, at)] of the vec![..] given to create_tuple at block bb, in order; None if not a literal vector"""
        b, fl = self.b, self.fl
        t = b.term(bb)
        for a in t["args"]:
            if a[0] != "k" and "Vec<graphs::Node>" in b.local_ty(a[1][0]):
                root = fl.root_of(a[1][0])
                # vec! literal: array aggregate written through a pointer rooted at the box that became this vector
                l = a[1][0]
                for _ in range(10):
                    ds = fl.defs_of.get(l, [])
                    if len(ds) != 1:
                        break
                    _, db, dj = fl.defs[ds[0]]
                    if db < 0:
                        break
                    if dj is None:
                        tt = b.term(db)
                        if callee_name(tt) == "std::boxed::box_assume_init_into_vec_unsafe":
                            r2 = fl.root_of(tt["args"][0][1][0])
                            for (wb, wj, place, rv) in fl.ptr_writes.get(r2, ()):
                                if rv[0] == "agg" and rv[1].get("k") == "array":
                                    return [(o, (wb, wj)) for o in rv[2]]
                        break
                    rv = b.stmts(db)[dj][2]
                    if rv[0] == "use" and rv[1][0] != "k" and len(rv[1][1]) == 1:
                        l = rv[1][1][0]
                        continue
                    break
                pushed = self._pushed_components(root, bb)
                if pushed is not None:
                    return pushed
        return None

    def _pushed_components(self, root, at_bb):
        """a vector created empty and filled by straight-line `push` calls only: [(operand, at)] in push order"""
        from . import cfg as C
        b, fl = self.b, self.fl
        ds = fl.defs_of.get(root, [])
        if len(ds) != 1:
            return None
        _, db, dj = fl.defs[ds[0]]
        if db < 0 or dj is not None or not (callee_name(b.term(db)) or "").endswith("Vec::<T>::new"):
            return None
        loops = C.loops(b)
        pushes = []
        for bb, t in b.calls():
            if b.is_cleanup(bb):
                continue
            touches = [i for i, a in enumerate(t["args"]) if a[0] != "k" and fl.root_of(a[1][0]) == root]
            if not touches or bb == db:
                continue
            cn = callee_name(t) or ""
            ty = b.local_ty(t["args"][touches[0]][1][0])
            if cn.endswith("Vec::<T, A>::push") and touches == [0]:
                if any(bb in blocks for _, blocks in loops):
                    return None
                pushes.append(bb)
            elif ty.startswith("&mut") :
                return None          # any other mutation: give up
        order = sorted(pushes, key=lambda x: sum(1 for y in pushes if C.dominates(b, y, x)))
        if not all(C.dominates(b, order[i], order[i + 1]) for i in range(len(order) - 1)):
            return None
        if order and not C.dominates(b, order[-1], at_bb):
            return None
        return [(b.term(x)["args"][1], (x, None)) for x in order] if order else None
