"""Small symbolic evaluator for integer expressions in MIR (party arithmetic such as `(i + PARTIES - 1) % PARTIES`)."""


def build(fl, b, op, depth=0):
    """AST of an integer operand: ("c", n) | ("v", local) | ("bin", op, a, b) | ("?",)"""
    if op[0] == "k":
        try:
            return ("c", int(op[4])) if op[4] is not None else ("?",)
        except ValueError:
            return ("?",)
    place = op[1]
    l = place[0]
    projs = [p for p in place[1:] if p != "*"]
    ds = fl.defs_of.get(l, [])
    if 1 <= l <= b.argc or len(ds) != 1 or depth > 20:
        return ("v", (l, tuple(projs)))
    _, bb, j = fl.defs[ds[0]]
    if bb < 0 or j is None:
        return ("v", (l, tuple(projs)))
    rv = b.stmts(bb)[j][2]
    if projs:
        # `(_t.0)` of a checked arithmetic tuple: AddWithOverflow & co
        if rv[0] == "bin" and rv[1].endswith("WithOverflow") and projs[0].startswith("f0"):
            return ("bin", rv[1].replace("WithOverflow", ""), build(fl, b, rv[2], depth + 1), build(fl, b, rv[3], depth + 1))
        return ("v", (l, tuple(projs)))
    if rv[0] == "use":
        return build(fl, b, rv[1], depth + 1)
    if rv[0] == "cast":
        return build(fl, b, rv[2], depth + 1)
    if rv[0] == "bin":
        return ("bin", rv[1], build(fl, b, rv[2], depth + 1), build(fl, b, rv[3], depth + 1))
    return ("v", (l, ()))


def variables(ast, out=None):
    out = set() if out is None else out
    if ast[0] == "v":
        out.add(ast[1])
    elif ast[0] == "bin":
        variables(ast[2], out)
        variables(ast[3], out)
    return out


def unknown(ast):
    if ast[0] == "?":
        return True
    if ast[0] == "bin":
        return unknown(ast[2]) or unknown(ast[3])
    return False


def evaluate(ast, env):
    k = ast[0]
    if k == "c":
        return ast[1]
    if k == "v":
        return env.get(ast[1])
    if k == "bin":
        a, c = evaluate(ast[2], env), evaluate(ast[3], env)
        if a is None or c is None:
            return None
        op = ast[1]
        try:
            if op in ("Add", "AddUnchecked"): return a + c
            if op in ("Sub", "SubUnchecked"): return a - c
            if op in ("Mul", "MulUnchecked"): return a * c
            if op == "Rem": return a % c if c else None
            if op == "Div": return a // c if c else None
        except TypeError:
            return None
    return None
