"""E4 helpers — which struct fields a body reads/writes (type-directed walk of place projections)."""
from .flow import field_name
from .facts import callee_name


def _walk_place(facts, body, place, out, kind):
    cur = body.local_adt(place[0])
    variant = None
    for p in place[1:]:
        if p == "*":
            continue
        if p[:1] == "d":
            variant = p.split(":", 1)[-1]
            continue
        fn = field_name(p)
        if fn is None:
            cur = None
            variant = None
            continue
        a = facts.adts.get(cur) if cur else None
        if a is None:
            # foreign ADT (Option, tuple, Arc...) -- no tracking beyond this point
            cur = None
            variant = None
            continue
        out.add((cur, fn, kind))
        nxt = None
        for v in a["variants"]:
            if variant is not None and v["name"] != variant:
                continue
            for f in v["fields"]:
                if f["name"] == fn:
                    nxt = f["adt"] if f["adt"] in facts.adts else None
        cur = nxt
        variant = None


def field_accesses(facts, body):
    """set of (adt_path, field_name, 'r'|'w') accessed by a body"""
    key = "field_accesses"
    if key in body._cache:
        return body._cache[key]
    out = set()

    def operand(op):
        if op[0] in ("c", "m"):
            _walk_place(facts, body, op[1], out, "r")

    for bb in range(body.nblocks()):
        for s in body.stmts(bb):
            if s[0] != "=":
                continue
            _walk_place(facts, body, s[1], out, "w")
            rv = s[2]
            k = rv[0]
            if k in ("use", "repeat"):
                operand(rv[1])
            elif k in ("ref", "raw"):
                _walk_place(facts, body, rv[2], out, "w" if rv[1] in ("mut", "Mut") else "r")
            elif k == "bin":
                operand(rv[2]); operand(rv[3])
            elif k in ("un",):
                operand(rv[2])
            elif k == "cast":
                operand(rv[2])
            elif k == "agg":
                for o in rv[2]:
                    operand(o)
            elif k == "discr":
                _walk_place(facts, body, rv[1], out, "r")
        t = body.term(bb)
        if t["k"] == "call":
            for a in t["args"]:
                operand(a)
        elif t["k"] == "switch":
            operand(t["op"])
    body._cache[key] = out
    return out


def fields_read_deep(facts, root_id, depth=1, crate_only=True, free_fn_depth=0):
    """fields read by a function, its closures and (to `depth`) its direct crate-local callees; beyond `depth`, private free
    functions of the same module (helpers such as `nodes_deep_equal`, not methods/getters) are still followed up to
    `free_fn_depth`"""
    seen = set()
    out = set()
    work = [(root_id, 0)]
    while work:
        n, d = work.pop()
        if n in seen:
            continue
        seen.add(n)
        for b in facts.family(n):
            for (adt, f, k) in field_accesses(facts, b):
                out.add((adt, f))
            for bb, t in b.calls():
                c = callee_name(t)
                if c not in facts.bodies:
                    continue
                if d < depth:
                    work.append((c, d + 1))
                elif d < free_fn_depth and c.rsplit("::", 1)[0] == root_id.rsplit("::", 1)[0] and facts.bodies[c].impl is None:
                    work.append((c, d + 1))
    return out
