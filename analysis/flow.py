"""E3 — intra-procedural value-flow ("origins") over MIR with reaching definitions.

origins(operand, at) returns the set of *origin* tuples a value may derive from, after
collapsing value-preserving steps (move/copy/ref/deref/field/downcast, clone, `?`,
Option/Result unwrapping, iterator adaptors, container stores and loads):

  ("call", bb, callee)         result of a non-transparent call at block bb
  ("param", local, path)       place rooted at a parameter; path = tuple of field names
  ("upvar", k, name)           k-th captured variable of a closure body
  ("const", ty, text, ival)    constant
  ("fn", path)                 function item / closure value
  ("agg", bb, j, label)        aggregate taken as a whole (label = ADT path[::Variant] | tuple | array | closure:<def>)
  ("bin", bb, j, op) ("discr", bb, j) ("cast", bb, j) ("other", bb, j)

It is a may-analysis: imprecision adds origins, never removes them.
"""
from .facts import callee_name

# ---- transparent calls: result derives from these argument positions
_TRANSPARENT_SUFFIX = {
    # smart pointers / cells
    "::clone": [0], "::to_owned": [0], "::deref": [0], "::deref_mut": [0], "::as_ref": [0], "::as_mut": [0],
    "::borrow": [0], "::borrow_mut": [0], "::as_slice": [0], "::as_mut_slice": [0], "::to_vec": [0],
    "::into_boxed_slice": [0], "::into_vec": [0], "::as_str": [0], "::as_deref": [0],
    # Try / Option / Result
    "::branch": [0], "::unwrap": [0], "::expect": [0], "::unwrap_or_default": [0], "::ok": [0],
    "::ok_or": [0], "::ok_or_else": [0], "::cloned": [0], "::copied": [0], "::map_err": [0],
    "::unwrap_or": [0, 1], "::unwrap_unchecked": [0], "::take": [0], "::flatten": [0],
    # iterators
    "::into_iter": [0], "::iter": [0], "::iter_mut": [0], "::next": [0], "::enumerate": [0], "::rev": [0],
    "::skip": [0], "::step_by": [0], "::peekable": [0], "::by_ref": [0], "::zip": [0, 1], "::chain": [0, 1],
    "::collect": [0], "::last": [0], "::first": [0], "::nth": [0], "::peek": [0], "::drain": [0],
    "::values": [0], "::keys": [0], "::into_values": [0], "::into_keys": [0], "::next_back": [0],
    "::find": [0], "::filter": [0], "::take_while": [0], "::skip_while": [0], "::min_by_key": [0], "::max_by_key": [0],
    "::transpose": [0], "::take": [0],
    # containers
    "::index": [0], "::index_mut": [0], "::get": [0], "::get_mut": [0], "::get_unchecked": [0],
    "::pop": [0], "::remove": [0], "::swap_remove": [0], "::split_at": [0], "::concat": [0],
    "::first_mut": [0], "::last_mut": [0], "::split_first": [0], "::split_last": [0],
    "::entry": [0], "::or_insert": [0, 1], "::or_insert_with": [0], "::or_default": [0],
    "::from_iter": [0],
}
_TRANSPARENT_EXACT = {
    "std::boxed::box_assume_init_into_vec_unsafe": [0],
    "std::hint::must_use": [0],
    "std::boxed::Box::<T>::new": [0], "std::sync::Arc::<T>::new": [0], "std::rc::Rc::<T>::new": [0],
    "std::mem::take": [0], "std::mem::replace": [0, 1],
    "std::convert::identity": [0],
    "std::iter::once": [0], "std::iter::repeat": [0], "std::iter::repeat_n": [0],
    "std::slice::<impl [T]>::to_vec": [0],
    "alloc::slice::<impl [T]>::to_vec": [0],
}
# only std/core/alloc/atomic_refcell callees are treated as transparent by suffix
_TRANSPARENT_CRATES = ("std::", "core::", "alloc::", "atomic_refcell::", "<std::", "<core::", "<alloc::",
                       "<atomic_refcell::", "hashbrown::", "<&", "<[", "<(")

# callee creates an empty container (no origin)
_EMPTY_SUFFIX = ("::new", "::with_capacity", "::new_uninit", "::default", "::new_in")

# container stores: arg0 is &mut container, listed args flow into it
_STORE_SUFFIX = {
    "::push": [1], "::push_back": [1], "::push_front": [1], "::insert": [1, 2], "::extend": [1],
    "::extend_from_slice": [1], "::append": [1], "::push_str": [1], "::resize": [2], "::fill": [1],
    "::copy_from_slice": [1], "::clone_from_slice": [1],
}


def is_std_path(name):
    return name.startswith(_TRANSPARENT_CRATES)


def transparent_args(name, extra=None):
    """argument positions flowing into the result if `name` is value-preserving, else None"""
    if name is None:
        return None
    if extra:
        for pat, idx in extra.items():
            if name == pat or name.endswith(pat):
                return idx
    if name in _TRANSPARENT_EXACT:
        return _TRANSPARENT_EXACT[name]
    if not is_std_path(name):
        return None
    base = name.split("::<")[0] if False else name
    for suf, idx in _TRANSPARENT_SUFFIX.items():
        if base.endswith(suf):
            return idx
    return None


_WRAPPER_VARIANTS = ("Some", "Ok", "Continue", "Break", "Err", "Occupied", "Vacant")


def strip_wrappers(projs):
    """drop leading `(x as Some).0`-style unwrapping projections (Option/Result/ControlFlow payloads)"""
    projs = tuple(p for p in projs if p != "*")
    while len(projs) >= 2 and projs[0][:1] == "d" and projs[0].split(":", 1)[-1] in _WRAPPER_VARIANTS \
            and field_index(projs[1]) == 0:
        projs = projs[2:]
    if projs and projs[0][:1] == "d":
        projs = projs[1:]
    return projs


def item_mode(name):
    if name.endswith("::enumerate"):
        return "enumerate"
    if name.endswith("::zip"):
        return "zip"
    return "pass"


def is_empty_ctor(name):
    if name is None or not is_std_path(name):
        return False
    return name.endswith(_EMPTY_SUFFIX)


def store_args(name):
    if name is None or not is_std_path(name):
        return None
    for suf, idx in _STORE_SUFFIX.items():
        if name.endswith(suf):
            return idx
    return None


def field_name(proj):
    """'f0:config' -> 'config' ; returns None for non-field projections"""
    if isinstance(proj, str) and proj.startswith("f"):
        i = proj.find(":")
        if i > 0:
            n = proj[i + 1:]
            return n if n != "" else proj[1:i]
    return None


def field_index(proj):
    if isinstance(proj, str) and proj.startswith("f"):
        i = proj.find(":")
        try:
            return int(proj[1:i])
        except ValueError:
            return None
    return None


class Flow:
    def __init__(self, facts, body, extra_transparent=None, call_hook=None, live_blocks=None):
        self.facts = facts
        self.body = body
        self.extra = extra_transparent or {}
        # call_hook(flow, bb, term, name) -> list of transparent arg indices | "opaque" | None (default rules)
        self.call_hook = call_hook
        # live_blocks: when given (e.g. the blocks executable under one Operation variant), definitions located in
        # other blocks are ignored -- makes the value-flow variant-sensitive
        self.live = live_blocks
        self.deep_aggregates = False  # when True, a struct aggregate read as a whole also yields its operands' origins
        self.keep_arrays = False  # when True, array aggregates also yield an ("agg", bb, j, "array") origin
        self._build_defs()
        self._rd_in = None
        self._memo = {}
        self._cuts = 0
        self._build_aux()

    # ------------------------------------------------------------ definitions
    def _build_defs(self):
        b = self.body
        self.defs = []          # index -> (local, bb, j|None)  j None => call terminator
        self.defs_of = {}       # local -> [def indices]
        self.block_defs = {}    # bb -> [(pos, def index)]  pos = j or 10**9 for terminator
        self.entry_def = {}     # param local -> def index
        for l in range(1, b.argc + 1):
            self.entry_def[l] = len(self.defs)
            self.defs_of.setdefault(l, []).append(len(self.defs))
            self.defs.append((l, -1, None))
        for bb in range(b.nblocks()):
            lst = []
            for j, s in enumerate(b.stmts(bb)):
                if s[0] == "=" and len(s[1]) == 1:
                    l = s[1][0]
                    di = len(self.defs)
                    self.defs.append((l, bb, j))
                    self.defs_of.setdefault(l, []).append(di)
                    lst.append((j, di))
            t = b.term(bb)
            if t["k"] == "call" and len(t["dest"]) == 1:
                l = t["dest"][0]
                di = len(self.defs)
                self.defs.append((l, bb, None))
                self.defs_of.setdefault(l, []).append(di)
                lst.append((10 ** 9, di))
            self.block_defs[bb] = lst

    def _reaching(self):
        if self._rd_in is not None:
            return self._rd_in
        b = self.body
        n = b.nblocks()
        mask_of = {l: 0 for l in self.defs_of}
        for l, ds in self.defs_of.items():
            m = 0
            for d in ds:
                m |= 1 << d
            mask_of[l] = m
        gen = [0] * n
        kill = [0] * n
        for bb in range(n):
            g = 0
            k = 0
            for pos, di in self.block_defs[bb]:
                l = self.defs[di][0]
                g = (g & ~mask_of[l]) | (1 << di)
                k |= mask_of[l]
            gen[bb] = g
            kill[bb] = k
        preds = [[] for _ in range(n)]
        for bb in range(n):
            t = b.term(bb)
            for s in b.succs(bb, unwind=False):
                preds[s].append((bb, False))
            # the destination of a call is not written on the unwind edge
            if t.get("u") is not None and t["k"] in ("call", "drop", "assert"):
                preds[t["u"]].append((bb, True))
        entry = 0
        for l, di in self.entry_def.items():
            entry |= 1 << di
        IN = [0] * n
        OUT = [0] * n
        IN[0] = entry
        work = list(range(n))
        inwork = [True] * n
        succs_all = [b.succs(bb, unwind=True) for bb in range(n)]
        while work:
            bb = work.pop()
            inwork[bb] = False
            i = entry if bb == 0 else 0
            for p, unw in preds[bb]:
                i |= OUT[p]
            IN[bb] = i
            o = (i & ~kill[bb]) | gen[bb]
            if o != OUT[bb]:
                OUT[bb] = o
                for s in succs_all[bb]:
                    if not inwork[s]:
                        inwork[s] = True
                        work.append(s)
        self._rd_in = IN
        self._mask_of = mask_of
        return IN

    def reaching_defs(self, local, at):
        """def indices of `local` reaching program point at=(bb, j) (j None: at the terminator)"""
        ds = self.defs_of.get(local)
        if not ds:
            return []
        if len(ds) == 1:
            return ds
        if at is None:
            return ds
        bb, j = at
        IN = self._reaching()
        cur = IN[bb] & self._mask_of[local]
        lim = 10 ** 9 if j is None else j
        for pos, di in self.block_defs[bb]:
            if pos >= lim:
                break
            if self.defs[di][0] == local:
                cur = 1 << di
        out = [d for d in ds if cur >> d & 1]
        return out

    # ------------------------------------------------------------ auxiliary maps
    def _build_aux(self):
        b = self.body
        # syntactic root of single-def pointer/reference temporaries
        self._root_memo = {}
        # partial writes: local -> [(bb, j, place, rv)]
        self.partial = {}
        self.ptr_writes = {}
        for bb, j, place, rv in b.assigns():
            if len(place) > 1:
                l = place[0]
                if place[1] == "*":
                    r = self.root_of(l)
                    self.ptr_writes.setdefault(r, []).append((bb, j, place, rv))
                    if r != l:
                        self.ptr_writes.setdefault(l, []).append((bb, j, place, rv))
                else:
                    self.partial.setdefault(l, []).append((bb, j, place, rv))
        # container stores: root local -> [(bb, [operand,...])]
        self.stores = {}
        for bb, t in b.calls():
            name = callee_name(t)
            sa = store_args(name)
            if sa is None or not t["args"]:
                continue
            a0 = t["args"][0]
            if a0[0] == "k":
                continue
            r = self.root_of(a0[1][0])
            ops = [t["args"][i] for i in sa if i < len(t["args"])]
            self.stores.setdefault(r, []).append((bb, ops))

    def root_of(self, l, depth=0):
        """follow `_p = &X.. | &raw X.. | copy/move _q.. | cast(_q)` of single-def locals to a root local"""
        if l in self._root_memo:
            return self._root_memo[l]
        self._root_memo[l] = l
        ds = self.defs_of.get(l, [])
        r = l
        if len(ds) == 1 and depth < 30:
            _, bb, j = self.defs[ds[0]]
            if bb >= 0 and j is not None:
                rv = self.body.stmts(bb)[j][2]
                nxt = None
                if rv[0] in ("ref", "raw"):
                    nxt = rv[2][0]
                elif rv[0] == "use" and rv[1][0] != "k":
                    nxt = rv[1][1][0]
                elif rv[0] == "cast" and rv[2][0] != "k":
                    nxt = rv[2][1][0]
                if nxt is not None and nxt != l:
                    r = self.root_of(nxt, depth + 1)
            elif bb >= 0 and j is None:
                t = self.body.term(bb)
                name = callee_name(t)
                ta = transparent_args(name, self.extra)
                if ta and t["args"] and t["args"][ta[0]][0] != "k" and name and (
                        name.endswith(("::deref_mut", "::deref", "::as_mut", "::borrow_mut", "::as_mut_ptr",
                                       "::index_mut", "::get_mut", "::iter_mut", "::as_mut_slice"))):
                    r = self.root_of(t["args"][ta[0]][1][0], depth + 1)
        self._root_memo[l] = r
        return r

    # ------------------------------------------------------------ origins
    def origins(self, op, at=None):
        """origins of an operand (["c"/"m", place] | ["k",..]) or of a bare place list"""
        if op and op[0] == "k":
            if op[3]:
                return frozenset([("fn", op[3])])
            return frozenset([("const", op[1], op[2], op[4])])
        place = op[1] if op and op[0] in ("c", "m") else op
        return self._place_origins(place[0], tuple(place[1:]), at, ())

    def _place_origins(self, local, projs, at, stack):
        b = self.body
        if "*" in projs:
            projs = tuple(p for p in projs if p != "*")  # references are transparent
        rds = tuple(self.reaching_defs(local, at))
        key = (local, projs, rds)
        if key in self._memo:
            return self._memo[key]
        if key in stack or len(stack) > 150:
            self._cuts += 1
            return frozenset()
        stack = stack + (key,)
        cuts0 = self._cuts
        out = set()
        for di in rds:
            l, bb, j = self.defs[di]
            if bb < 0:
                out.add(self._param_origin(l, projs))
                continue
            if self.live is not None and bb not in self.live:
                continue
            if j is None:
                out |= self._call_origins(bb, projs, stack)
            else:
                rv = b.stmts(bb)[j][2]
                out |= self._rvalue_origins(rv, projs, (bb, j), stack)
        if not rds and local not in self.defs_of:
            # never assigned as a whole (built by partial writes only) or unknown
            pass
        # weak updates: field writes, writes through pointers, container stores
        for (bb, j, place, rv) in self.partial.get(local, ()):  # field writes `l.f = rv`
            if self.live is not None and bb not in self.live:
                continue
            wprojs = tuple(q for q in place[1:] if q != "*")
            if self._proj_compatible(wprojs, projs):
                rest = projs[len(wprojs):] if len(projs) >= len(wprojs) else ()
                out |= self._rvalue_origins(rv, rest, (bb, j), stack)
        for (bb, j, place, rv) in self.ptr_writes.get(local, ()):  # `(*p).. = rv` with p rooted here
            if self.live is not None and bb not in self.live:
                continue
            out |= self._rvalue_origins(rv, projs, (bb, j), stack)
        for (bb, ops) in self.stores.get(local, ()):  # push/insert/extend
            if self.live is not None and bb not in self.live:
                continue
            for o in ops:
                out |= self._operand_origins(o, projs, (bb, None), stack)
        res = frozenset(out)
        if self._cuts == cuts0 or len(stack) == 1:
            self._memo[key] = res
        return res

    @staticmethod
    def _proj_compatible(wprojs, projs):
        # a write to l.a.b is relevant for a read of l, l.a, l.a.b, l.a.b.c ; not for l.x
        n = min(len(wprojs), len(projs))
        for i in range(n):
            if wprojs[i] != projs[i]:
                fa, fb = field_index(wprojs[i]), field_index(projs[i])
                if fa is not None and fb is not None and fa != fb:
                    return False
                if wprojs[i][:1] == "d" and projs[i][:1] == "d":
                    return False
        return True

    def _param_origin(self, l, projs):
        path = tuple(field_name(p) for p in projs if field_name(p) is not None)
        if self.body.kind == "closure" and l == 1 and path:
            k = None
            for p in projs:
                if field_index(p) is not None:
                    k = field_index(p)
                    break
            return ("upvar", k, path[0]) + ((path[1:],) if len(path) > 1 else ())
        return ("param", l, path)

    def _operand_origins(self, op, projs, at, stack):
        if op[0] == "k":
            if op[3]:
                return {("fn", op[3])}
            return {("const", op[1], op[2], op[4])}
        place = op[1]
        return self._place_origins(place[0], tuple(place[1:]) + tuple(projs), at, stack)

    def _rvalue_origins(self, rv, projs, at, stack):
        k = rv[0]
        bb, j = at
        if k == "use":
            return self._operand_origins(rv[1], projs, at, stack)
        if k in ("ref", "raw"):
            p = rv[2]
            return self._place_origins(p[0], tuple(p[1:]) + tuple(projs), at, stack)
        if k == "cast":
            if rv[1] in ("Transmute", "PtrToPtr") or rv[1].startswith("PointerCoercion"):
                return self._operand_origins(rv[2], projs, at, stack)
            r = set(self._operand_origins(rv[2], (), at, stack))
            r.add(("cast", bb, j))
            return r
        if k == "agg":
            desc = rv[1]
            ops = rv[2]
            # project into the aggregate when the read asks for a field
            pj = list(projs)
            while pj and (pj[0][:1] == "d"):
                pj.pop(0)
            if pj and field_index(pj[0]) is not None and desc.get("k") in ("adt", "tuple", "closure"):
                i = field_index(pj[0])
                if i < len(ops):
                    return self._operand_origins(ops[i], tuple(pj[1:]), at, stack)
                return set()
            if desc.get("k") == "array":
                out = set()
                if self.keep_arrays:
                    out.add(("agg", bb, j, "array"))
                rest = tuple(pj[1:]) if pj and (pj[0][:1] in ("c", "i")) else tuple(pj)
                for o in ops:
                    out |= self._operand_origins(o, rest, at, stack)
                return out
            # whole aggregate: Option/Result wrappers are transparent
            if desc.get("k") == "adt" and desc.get("adt") in ("std::option::Option", "std::result::Result",
                                                                "std::ops::ControlFlow"):
                out = set()
                for o in ops:
                    out |= self._operand_origins(o, tuple(pj), at, stack)
                if not ops:
                    out.add(("agg", bb, j, desc.get("adt") + "::" + desc.get("vn", "")))
                return out
            if desc.get("k") == "adt":
                label = desc["adt"] + ("::" + desc["vn"] if desc.get("vn") else "")
            elif desc.get("k") == "closure":
                label = "closure:" + desc["def"]
            else:
                label = desc.get("k")
            out = {("agg", bb, j, label)}
            if desc.get("k") == "tuple" or self.deep_aggregates:
                # a tuple read as a whole: collapse (zip/enumerate items, Try payloads)
                for o in ops:
                    out |= self._operand_origins(o, (), at, stack)
            return out
        if k == "bin":
            return {("bin", bb, j, rv[1])}
        if k == "un":
            return {("bin", bb, j, rv[1])}
        if k == "discr":
            return {("discr", bb, j)}
        if k == "repeat":
            return self._operand_origins(rv[1], (), at, stack)
        return {("other", bb, j)}

    # ---- strong update for constant-index paths: `v[1][0] = x; ... v[1][0]` reads x
    def _index_path(self, op, depth=0):
        """(root local, (k1, k2, ..)) for an operand reached through Index/IndexMut calls with constant indices"""
        if op[0] == "k" or depth > 8:
            return None
        l = op[1][0]
        ds = self.defs_of.get(l, [])
        if len(ds) == 1:
            _, bb, j = self.defs[ds[0]]
            if bb >= 0 and j is None:
                t = self.body.term(bb)
                n = callee_name(t) or ""
                if n.endswith(("::index", "::index_mut")) and len(t["args"]) == 2:
                    k = t["args"][1]
                    if k[0] == "k" and k[4] is not None:
                        base = self._index_path(t["args"][0], depth + 1)
                        if base is not None:
                            return (base[0], base[1] + (int(k[4]),))
                    return (self.root_of(l), None)  # non-constant index
                if (t["f"].get("def") in ("std::clone::Clone::clone", "std::ops::Deref::deref") or
                        n.endswith(("::clone", "::unwrap", "::as_ref", "::branch"))) and t["args"] and t["args"][0][0] != "k" \
                        and not [p for p in t["args"][0][1][1:] if p != "*"]:
                    return self._index_path(t["args"][0], depth + 1)
            elif bb >= 0:
                rv = self.body.stmts(bb)[j][2]
                if rv[0] in ("ref", "raw") and len([p for p in rv[2][1:] if p != "*"]) == 0:
                    return self._index_path(["c", [rv[2][0]]], depth + 1)
                if rv[0] == "use" and rv[1][0] != "k" and len([p for p in rv[1][1][1:] if p != "*"]) == 0:
                    return self._index_path(rv[1], depth + 1)
        return (l, ())

    def _strong_index_read(self, bb, stack):
        """origins for `Index::index(.., const)` when a dominating write to the same constant path exists
        and no other write to the container can intervene; None = fall back to the weak (collapsed) answer"""
        from . import cfg as C
        t = self.body.term(bb)
        k = t["args"][1]
        if k[0] != "k" or k[4] is None:
            return None
        base = self._index_path(t["args"][0])
        if base is None or base[1] is None:
            return None
        root, path = base[0], base[1] + (int(k[4]),)
        writes = []
        for (wb, wj, place, rv) in self.ptr_writes.get(root, ()):
            wp = self._index_path(["c", [place[0]]])
            writes.append((wb, wj, rv, wp[1] if wp and wp[0] == root else None))
        if not writes:
            return None
        cands = [w for w in writes if w[3] == path and C.dominates(self.body, w[0], bb)]
        if not cands:
            return None
        best = None
        for w in cands:
            if all(C.dominates(self.body, o[0], w[0]) for o in cands):
                best = w
        if best is None:
            return None
        region = C.reachable_after(self.body, best[0]) if best[0] != bb else set()
        for w in writes:
            if w is best:
                continue
            overlap = w[3] is None or w[3] == path or w[3] == path[:len(w[3])] or path == w[3][:len(path)]
            if overlap and (w[0] in region and bb in C.reachable(self.body, [w[0]]) or
                            (w[0] == best[0] and w[1] > best[1])):
                return None
        for (sb, ops) in self.stores.get(root, ()):
            if sb in region and bb in C.reachable(self.body, [sb]):
                return None
        return self._rvalue_origins(best[2], (), (best[0], best[1]), stack)

    def _call_origins(self, bb, projs, stack):
        t = self.body.term(bb)
        name = callee_name(t)
        if name is None:
            return {("call", bb, "<indirect>")}
        if name.endswith("::index") and len(t["args"]) == 2 and is_std_path(name):
            strong = self._strong_index_read(bb, stack)
            if strong is not None:
                return strong
        if self.call_hook is not None:
            h = self.call_hook(self, bb, t, name)
            if h == "opaque":
                return {("call", bb, name)}
            if h is not None:
                out = {("via", bb, name)}
                for i in h:
                    if i < len(t["args"]):
                        out |= self._operand_origins(t["args"][i], (), (bb, None), stack)
                return out
        ta = transparent_args(name, self.extra)
        if ta is None and t["f"].get("res"):
            ta = transparent_args(t["f"].get("def"), self.extra)  # e.g. `<I as IntoIterator>::into_iter`
        if ta is None and t["f"].get("def") in ("std::clone::Clone::clone", "std::borrow::ToOwned::to_owned",
                                                 "std::ops::Deref::deref", "std::ops::DerefMut::deref_mut"):
            ta = [0]  # user impls of Clone/Deref are value-preserving too
        if ta is not None:
            out = set()
            rest = strip_wrappers(projs)
            if name.endswith("::enumerate") or name.endswith("::zip"):
                # handled when the *item* is projected: see below
                pass
            mode = item_mode(name)
            for n_i, i in enumerate(ta):
                if i >= len(t["args"]):
                    continue
                r = rest
                if mode == "enumerate":
                    if r and field_index(r[0]) == 0:
                        out.add(("index", bb))
                        continue
                    if r and field_index(r[0]) == 1:
                        r = r[1:]
                elif mode == "zip":
                    if r and field_index(r[0]) is not None:
                        if field_index(r[0]) != n_i:
                            continue
                        r = r[1:]
                out |= self._operand_origins(t["args"][i], r, (bb, None), stack)
            return out
        if is_empty_ctor(name) and not t["args"]:
            return set()
        return {("call", bb, name)}

    def trail(self, place, depth=0):
        """field names along the syntactic reference chain of a place, outermost first
        (`_62.*` with `_62 = &mut (*_63).type_checker`, `_63 = deref_mut(&mut _57)` ... -> [.., 'type_checker'])"""
        names = [field_name(p) for p in place[1:] if field_name(p) is not None]
        l = place[0]
        ds = self.defs_of.get(l, [])
        if len(ds) != 1 or depth > 40:
            return names
        _, bb, j = self.defs[ds[0]]
        if bb < 0:
            return names
        if j is not None:
            rv = self.body.stmts(bb)[j][2]
            if rv[0] in ("ref", "raw"):
                return self.trail(rv[2], depth + 1) + names
            if rv[0] == "use" and rv[1][0] != "k":
                return self.trail(rv[1][1], depth + 1) + names
            if rv[0] == "cast" and rv[2][0] != "k":
                return self.trail(rv[2][1], depth + 1) + names
            return names
        t = self.body.term(bb)
        ta = transparent_args(callee_name(t), self.extra)
        if ta and t["args"] and t["args"][ta[0]][0] != "k":
            return self.trail(t["args"][ta[0]][1], depth + 1) + names
        return names

    def leaf_deps(self, op, at=None, depth=0):
        """origins of an operand with arithmetic expanded: `bin`/`cast`/`other` origins are replaced by the
        origins of their operands, so the result lists only params, constants, calls, aggregates"""
        out = set()
        for o in self.origins(op, at):
            if o[0] in ("bin", "cast", "other") and depth < 12:
                bb, j = o[1], o[2]
                rv = self.body.stmts(bb)[j][2]
                ops = []
                if rv[0] == "bin":
                    ops = [rv[2], rv[3]]
                elif rv[0] in ("un", "cast"):
                    ops = [rv[2]]
                for x in ops:
                    out |= self.leaf_deps(x, (bb, j), depth + 1)
            else:
                out.add(o)
        return out

    # ------------------------------------------------------------ helpers for rules
    def call_origins_of_arg(self, bb, i):
        t = self.body.term(bb)
        return self.origins(t["args"][i], (bb, None))

    def producers(self, op, at=None):
        """callee names of the non-transparent calls an operand may come from (+ other origin kinds)"""
        return self.origins(op, at)
