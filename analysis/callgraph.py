"""call graph over the extracted bodies (resolved callees; closures belong to their root function)"""
from .facts import callee_name


def callees(facts, body):
    out = []
    for bb, t in body.calls():
        n = callee_name(t)
        d = t["f"].get("def")
        for cand in (n, d):
            if cand and cand in facts.bodies:
                out.append((bb, cand))
                break
    return out


def reach(facts, seeds, stop=lambda name: False, include_closures=True):
    """bodies reachable from seeds through direct calls; `stop(name)` bodies are not entered.
    returns dict name -> (parent_name, bb) for diagnostics"""
    seen = {}
    work = []
    for s in seeds:
        if s in facts.bodies and s not in seen:
            seen[s] = (None, None)
            work.append(s)
    while work:
        n = work.pop()
        b = facts.bodies[n]
        nxt = [(bb, c) for bb, c in callees(facts, b)]
        if include_closures:
            for c in facts.closures_of(b.root or b.id):
                nxt.append((None, c.id))
        for bb, c in nxt:
            if c in seen or stop(c):
                continue
            seen[c] = (n, bb)
            work.append(c)
    return seen


def chain(seen, name):
    out = []
    while name is not None:
        out.append(name)
        name = seen[name][0]
    return out[::-1]
