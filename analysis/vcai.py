"""E2 — variant-conditioned abstract interpretation (sparse conditional constant propagation over MIR).

Abstract values (hashable tuples):
  BOT                      nothing assigned yet on an executable path
  TOP                      unknown
  ("b", bool) ("i", int)   constants
  ("subj",)                the subject `Operation` (or a reference to it) whose variant is assumed
  ("enum", adt, idx, name, fields)   enum value with known variant; fields = tuple of abstract values
  ("tuple", fields)
Only finitely many values per local (constants, tags); joins of different values give TOP, so the
fixpoint terminates.  No ciphercore value is ever computed.
"""
from .facts import callee_name
from .flow import field_index

BOT = ("bot",)
TOP = ("top",)
SUBJ = ("subj",)
OPERATION = "graphs::Operation"


def join(a, b):
    if a == BOT:
        return b
    if b == BOT:
        return a
    if a == b:
        return a
    if a == TOP or b == TOP:
        return TOP
    if a[0] == "enum" and b[0] == "enum" and a[1] == b[1] and a[2] == b[2] and len(a[4]) == len(b[4]):
        return ("enum", a[1], a[2], a[3], tuple(join(x, y) for x, y in zip(a[4], b[4])))
    if a[0] == "tuple" and b[0] == "tuple" and len(a[1]) == len(b[1]):
        return ("tuple", tuple(join(x, y) for x, y in zip(a[1], b[1])))
    # different variants of one enum: keep the (small) set of alternatives
    alts = {}
    for v in (a, b):
        for x in (v[1] if v[0] == "any" else (v,)):
            if x[0] != "enum":
                return TOP
            k = (x[1], x[2])
            alts[k] = join(alts[k], x) if k in alts else x
    if len({k[0] for k in alts}) == 1 and len(alts) <= 6 and all(v != TOP for v in alts.values()):
        return ("any", tuple(sorted(alts.values(), key=lambda x: x[2])))
    return TOP


def alternatives(v):
    """list of concrete alternatives of an abstract value (itself unless it is an `any`)"""
    return list(v[1]) if v[0] == "any" else [v]


def fmt(v):
    if v == BOT:
        return "unreachable"
    if v == TOP:
        return "?"
    if v[0] == "b":
        return "true" if v[1] else "false"
    if v[0] == "i":
        return str(v[1])
    if v[0] == "subj":
        return "<op>"
    if v[0] == "enum":
        if v[4]:
            return "%s(%s)" % (v[3], ",".join(fmt(x) for x in v[4]))
        return v[3]
    if v[0] == "tuple":
        return "(%s)" % ",".join(fmt(x) for x in v[1])
    if v[0] == "any":
        return "|".join(fmt(x) for x in v[1])
    return "?"


class Interp:
    """one run = one body under one assumed variant of the subject operation"""

    def __init__(self, facts, variant_idx, subject_calls=("graphs::Node::get_operation",), depth=0, memo=None,
                 call_models=None, subject_adt=OPERATION, site_values=None):
        self.facts = facts
        self.variant = variant_idx
        self.subject_calls = subject_calls
        self.depth = depth
        self.memo = memo if memo is not None else {}
        self.call_models = call_models or {}
        self.subject_adt = subject_adt
        # site_values: {(body id, bb): abstract value} forced results of particular call sites
        self.site_values = site_values or {}
        self._cur_body = None
        # forced: {body id: {local: abstract value}} -- every executable assignment to the local yields that value
        self.forced = {}

    # -------------------------------------------------------------- evaluation
    def eval_place(self, env, place):
        v = env.get(place[0], BOT)
        last_down = None
        for p in place[1:]:
            if v == BOT:
                return BOT
            if p == "*":
                continue
            if p[:1] == "d":
                last_down = p.split(":", 1)[-1]
                continue
            fi = field_index(p)
            if fi is None:
                return TOP
            if v[0] == "enum":
                v = v[4][fi] if fi < len(v[4]) else TOP
            elif v[0] == "any":
                # payload of one of several variants: the downcast seen just before selects it
                sel = [x for x in v[1] if last_down is None or x[3] == last_down]
                r = BOT
                for x in sel:
                    r = join(r, x[4][fi] if fi < len(x[4]) else TOP)
                v = r if sel else TOP
            elif v[0] == "tuple":
                v = v[1][fi] if fi < len(v[1]) else TOP
            else:
                v = TOP
        return v

    def eval_operand(self, env, op):
        if op[0] == "k":
            ty, txt, _fn, ival = op[1], op[2], op[3], op[4]
            if txt.endswith("]") and "::promoted[" in txt and self._cur_body is not None:
                try:
                    k = int(txt[txt.rindex("[") + 1:-1])
                except ValueError:
                    return TOP
                pb = self._cur_body.promoted_body(k) if txt.startswith(self._cur_body.id.split("::promoted[")[0]) or True else None
                if pb is not None and self.depth < 8:
                    sub = Interp(self.facts, self.variant, self.subject_calls, self.depth + 1, self.memo, self.call_models,
                                 self.subject_adt, self.site_values)
                    return sub.run(pb).ret
                return TOP
            if ty == "bool" and ival is not None:
                return ("b", ival == "1")
            if ival is not None:
                try:
                    return ("i", int(ival))
                except ValueError:
                    return TOP
            return TOP
        return self.eval_place(env, op[1])

    def eval_rvalue(self, env, rv):
        k = rv[0]
        if k == "use":
            return self.eval_operand(env, rv[1])
        if k in ("ref", "raw"):
            return self.eval_place(env, rv[2])
        if k == "un":
            a = self.eval_operand(env, rv[2])
            if a == BOT:
                return BOT
            if rv[1] == "Not" and a[0] == "b":
                return ("b", not a[1])
            return TOP
        if k == "bin":
            a = self.eval_operand(env, rv[2])
            b = self.eval_operand(env, rv[3])
            if a == BOT or b == BOT:
                return BOT
            if a[0] in ("i", "b") and b[0] in ("i", "b"):
                x, y = a[1], b[1]
                op = rv[1]
                try:
                    if op == "Eq": return ("b", x == y)
                    if op == "Ne": return ("b", x != y)
                    if op == "Lt": return ("b", x < y)
                    if op == "Le": return ("b", x <= y)
                    if op == "Gt": return ("b", x > y)
                    if op == "Ge": return ("b", x >= y)
                    if op == "BitAnd" and a[0] == "b": return ("b", x and y)
                    if op == "BitOr" and a[0] == "b": return ("b", x or y)
                    if op == "BitXor" and a[0] == "b": return ("b", x != y)
                    if op in ("Add", "AddUnchecked"): return ("i", x + y)
                    if op in ("Sub", "SubUnchecked"): return ("i", x - y)
                    if op in ("Mul", "MulUnchecked"): return ("i", x * y)
                except TypeError:
                    return TOP
            return TOP
        if k == "cast":
            a = self.eval_operand(env, rv[2])
            if a == BOT:
                return BOT
            if a[0] == "i":
                return a
            if a == SUBJ:
                return SUBJ
            return TOP
        if k == "agg":
            d = rv[1]
            vals = tuple(self.eval_operand(env, o) for o in rv[2])
            if any(v == BOT for v in vals):
                return BOT
            if d.get("k") == "adt":
                a = self.facts.adts.get(d["adt"])
                if (a and a["kind"] == "enum") or d["adt"] in ("std::option::Option", "std::result::Result",
                                                                 "std::ops::ControlFlow"):
                    return ("enum", d["adt"], d["v"], d["vn"], vals)
                return TOP
            if d.get("k") == "tuple":
                return ("tuple", vals)
            return TOP
        if k == "discr":
            v = self.eval_place(env, rv[1])
            if v == BOT:
                return BOT
            if v == SUBJ and rv[2] == self.subject_adt:
                return ("i", self.variant)
            if v[0] == "enum":
                return ("i", v[2])
            if v[0] == "any":
                return ("ints", tuple(x[2] for x in v[1]))
            return TOP
        return TOP

    def eval_call(self, env, body, bb, t):
        name = callee_name(t)
        args = [self.eval_operand(env, a) for a in t["args"]]
        if any(a == BOT for a in args):
            return BOT
        sv = self.site_values.get((body.id, bb))
        if sv is not None:
            return sv
        if name is None:
            return TOP
        if name in self.call_models:
            r = self.call_models[name](self, body, bb, t, args)
            if r is not None:
                return r
        if name in self.subject_calls:
            return SUBJ
        short = name
        if short.endswith(("::clone", "::deref", "::deref_mut", "::borrow", "::as_ref", "::to_owned")) and args:
            if args[0] == SUBJ or args[0][0] in ("enum", "b", "i", "tuple"):
                return args[0]
            return TOP
        if short.endswith("as std::ops::Try>::branch") and args and args[0][0] == "any":
            r = BOT
            for alt in args[0][1]:
                r = join(r, self._branch(alt))
            return r
        if short.endswith("as std::ops::Try>::branch") and args:
            return self._branch(args[0])
        if False:
            a = args[0]
            if a[0] == "enum" and a[1] == "std::result::Result":
                if a[2] == 0:
                    return ("enum", "std::ops::ControlFlow", 0, "Continue", (a[4][0] if a[4] else TOP,))
                return ("enum", "std::ops::ControlFlow", 1, "Break", (("enum", "std::result::Result", 1, "Err", (TOP,)),))
            if a[0] == "enum" and a[1] == "std::option::Option":
                if a[2] == 1:
                    return ("enum", "std::ops::ControlFlow", 0, "Continue", (a[4][0] if a[4] else TOP,))
                return ("enum", "std::ops::ControlFlow", 1, "Break", (("enum", "std::option::Option", 0, "None", ()),))
            return TOP
        if "from_residual" in short:
            rt = body.local_ty(0)
            if rt.startswith("std::result::Result"):
                return ("enum", "std::result::Result", 1, "Err", (TOP,))
            if rt.startswith("std::option::Option"):
                return ("enum", "std::option::Option", 0, "None", ())
            return TOP
        if short in ("std::result::Result::<T, E>::is_err", "std::result::Result::<T, E>::is_ok",
                     "std::option::Option::<T>::is_some", "std::option::Option::<T>::is_none") and args:
            a = args[0]
            if a[0] == "enum":
                want = {"is_err": 1, "is_ok": 0, "is_some": 1, "is_none": 0}[short.rsplit("::", 1)[1]]
                return ("b", a[2] == want)
            return TOP
        if short.startswith("std::option::Option") and short.endswith(("::ok_or_else", "::ok_or")) and args and \
                args[0] not in (TOP, BOT) and args[0][0] == "enum":
            a = args[0]
            if a[3] == "Some":
                return ("enum", "std::result::Result", 0, "Ok", (a[4][0] if a[4] else TOP,))
            return ("enum", "std::result::Result", 1, "Err", (TOP,))
        if short.startswith("std::result::Result") and short.endswith("::ok") and args and args[0] not in (TOP, BOT) and args[0][0] == "enum":
            a = args[0]
            if a[3] == "Ok":
                return ("enum", "std::option::Option", 1, "Some", (a[4][0] if a[4] else TOP,))
            return ("enum", "std::option::Option", 0, "None", ())
        # Result/Option combinators applied to a value of known variant: run the closure on the payload
        if (short.startswith("std::result::Result") or short.startswith("std::option::Option")) and len(args) == 2 and \
                short.endswith(("::map", "::and_then", "::map_err", "::or_else")) and args[0] not in (TOP, BOT) and args[0][0] == "enum":
            a = args[0]
            good = a[3] in ("Ok", "Some")
            on_good = short.endswith(("::map", "::and_then"))
            if good != on_good:
                return a                    # the closure is not applied: the value passes through
            ca = t["args"][1]
            cbody = None
            if ca[0] != "k":
                cty = body.local_ty(ca[1][0])
                for cb_ in self.facts.closures_of(body.root or body.id):
                    if ("closure@%s:%d:" % (cb_.file, cb_.line)) in cty:
                        cbody = cb_
            if cbody is not None and self.depth < 4:
                sub = Interp(self.facts, self.variant, self.subject_calls, self.depth + 1, self.memo, self.call_models,
                             self.subject_adt, self.site_values)
                sub.forced = self.forced
                payload = a[4][0] if a[4] else TOP
                r = sub.run(cbody, {2: payload}).ret
                if short.endswith(("::and_then", "::or_else")):
                    return r
                if short.endswith("::map"):
                    return ("enum", a[1], a[2], a[3], (r,))
                return ("enum", a[1], a[2], a[3], (r,))
            return TOP
        # Option combinators preserve None (`key.as_ref().and_then(|k| table.get(k)).cloned()`)
        if short.startswith("std::option::Option") and short.endswith(("::and_then", "::map", "::cloned", "::copied", "::filter",
                                                                        "::as_deref", "::inspect", "::flatten")) and args:
            a = args[0]
            if a[0] == "enum" and a[3] == "None":
                return ("enum", "std::option::Option", 0, "None", ())
            return TOP
        # derived equality between the subject and a value of known variant
        d = t["f"].get("def")
        if d in ("std::cmp::PartialEq::eq", "std::cmp::PartialEq::ne") and len(args) == 2 and self.variant >= 0:
            a, b2 = args
            other = b2 if a == SUBJ else (a if b2 == SUBJ else None)
            if other is not None and other[0] == "enum" and other[1] == self.subject_adt:
                im = self.facts.impl_of("std::cmp::PartialEq", self.subject_adt)
                if im is not None and im["derived"]:
                    if other[2] != self.variant:
                        return ("b", d.endswith("::ne"))
                    if not other[4]:
                        return ("b", d.endswith("::eq"))
            return TOP
        # a local closure applied to arguments that carry the subject (`renumber(node.get_operation())`): interpret its body;
        # the call passes (closure, (args..)), the body takes them as separate parameters
        cb = self.facts.bodies.get(name)
        if cb is not None and cb.kind == "closure" and self.depth < 4 and len(args) == 2 and args[1] not in (TOP, BOT) \
                and args[1][0] == "tuple" and SUBJ in args[1][1]:
            key = (cb.id, self.variant, tuple(args[1][1]))
            if key in self.memo:
                return self.memo[key]
            self.memo[key] = TOP
            sub = Interp(self.facts, self.variant, self.subject_calls, self.depth + 1, self.memo, self.call_models,
                         self.subject_adt, self.site_values)
            sub.forced = self.forced
            r = sub.run(cb, {i + 2: a for i, a in enumerate(args[1][1])}).ret
            self.memo[key] = r
            return r
        # crate-local function receiving the subject operation: interpret it under the same assumption
        if cb is not None and SUBJ in args and self.depth < 6:
            return self.run_callee(cb, args)
        # small crate-local predicate helpers (`fn must_keep(..) -> bool`): interpret them too, so that a guard moved into a
        # helper is seen exactly like the inline guard (forced call sites inside the helper keep working: same site table)
        if cb is not None and self.depth < 3 and cb.kind != "closure" and cb.local_ty(0) == "bool" and cb.nblocks() <= 60:
            return self.run_callee(cb, args)
        # small same-file helpers handed a value whose variant is known (`state.find_duplicate(&None)`)
        if cb is not None and self.depth < 3 and cb.kind != "closure" and cb.nblocks() <= 80 and cb.file == body.file and \
                any(a not in (TOP, BOT, SUBJ) and a[0] == "enum" for a in args):
            return self.run_callee(cb, args)
        return TOP

    @staticmethod
    def _branch(a):
        if a[0] == "enum" and a[1] == "std::result::Result":
            if a[2] == 0:
                return ("enum", "std::ops::ControlFlow", 0, "Continue", (a[4][0] if a[4] else TOP,))
            return ("enum", "std::ops::ControlFlow", 1, "Break", (("enum", "std::result::Result", 1, "Err", (TOP,)),))
        if a[0] == "enum" and a[1] == "std::option::Option":
            if a[2] == 1:
                return ("enum", "std::ops::ControlFlow", 0, "Continue", (a[4][0] if a[4] else TOP,))
            return ("enum", "std::ops::ControlFlow", 1, "Break", (("enum", "std::option::Option", 0, "None", ()),))
        return TOP

    def run_callee(self, cb, args):
        key = (cb.id, self.variant, tuple(args))
        if key in self.memo:
            return self.memo[key]
        self.memo[key] = TOP  # recursion guard
        sub = Interp(self.facts, self.variant, self.subject_calls, self.depth + 1, self.memo, self.call_models,
                     self.subject_adt, self.site_values)
        sub.forced = self.forced
        res = sub.run(cb, {i + 1: a for i, a in enumerate(args)})
        self.memo[key] = res.ret
        return res.ret

    # -------------------------------------------------------------- driver
    def run(self, body, params=None):
        self._cur_body = body
        env = {}
        for l in range(1, body.argc + 1):
            env[l] = TOP
        if params:
            env.update(params)
        exec_blocks = {0}
        exec_edges = set()
        changed = True
        rounds = 0
        n = body.nblocks()

        forced = self.forced.get(body.id, {})

        def assign(l, v):
            nonlocal changed
            if l in forced and v != BOT:
                v = forced[l]
            old = env.get(l, BOT)
            new = join(old, v)
            if new != old:
                env[l] = new
                changed = True

        while changed and rounds < 60:
            changed = False
            rounds += 1
            for bb in range(n):
                if bb not in exec_blocks:
                    continue
                for s in body.stmts(bb):
                    if s[0] != "=":
                        continue
                    place, rv = s[1], s[2]
                    if len(place) == 1:
                        assign(place[0], self.eval_rvalue(env, rv))
                    else:
                        # partial / through-pointer write: the base local becomes unknown
                        if env.get(place[0], BOT) not in (BOT,) or True:
                            if place[1:] and place[1] != "*":
                                assign(place[0], TOP)
                t = body.term(bb)
                k = t["k"]
                succs = []
                if k == "call":
                    v = self.eval_call(env, body, bb, t)
                    if len(t["dest"]) == 1:
                        if v != BOT:
                            assign(t["dest"][0], v)
                    if v != BOT and t.get("t") is not None:
                        succs.append(t["t"])
                    if t.get("u") is not None:
                        succs.append(t["u"])
                elif k == "switch":
                    v = self.eval_operand(env, t["op"])
                    if v == BOT:
                        succs = []
                    elif v[0] in ("i", "b", "ints"):
                        succs = []
                        for x in (v[1] if v[0] == "ints" else (int(v[1]),)):
                            tgt = None
                            for val, b2 in t["arms"]:
                                if int(val) == x:
                                    tgt = b2
                            succs.append(tgt if tgt is not None else t["else"])
                    else:
                        succs = [b2 for _, b2 in t["arms"]] + [t["else"]]
                elif k == "goto":
                    succs = [t["t"]]
                elif k in ("drop", "assert"):
                    succs = [t["t"]]
                    if t.get("u") is not None:
                        succs.append(t["u"])
                for s2 in succs:
                    if (bb, s2) not in exec_edges:
                        exec_edges.add((bb, s2))
                        changed = True
                    if s2 not in exec_blocks:
                        exec_blocks.add(s2)
                        changed = True
        ret = BOT
        for bb in exec_blocks:
            if body.term(bb)["k"] == "ret":
                ret = join(ret, env.get(0, BOT))
        return Result(body, env, exec_blocks, exec_edges, ret)


class Result:
    def __init__(self, body, env, blocks, edges, ret):
        self.body = body
        self.env = env
        self.blocks = blocks
        self.edges = edges
        self.ret = ret

    def normal_blocks(self):
        return {b for b in self.blocks if not self.body.is_cleanup(b)}

    def reachable_calls(self):
        """(bb, callee) of executable, non-cleanup call blocks whose call actually executes"""
        out = []
        for b in sorted(self.normal_blocks()):
            t = self.body.term(b)
            if t["k"] == "call":
                out.append((b, callee_name(t)))
        return out


def variants(facts, adt=OPERATION):
    a = facts.adts.get(adt)
    return [(v["idx"], v["name"]) for v in a["variants"]] if a else []


def predicate_table(facts, fname, memo=None, adt=OPERATION):
    """variant name -> formatted abstract return value of a function of the subject operation"""
    b = facts.body(fname)
    if b is None:
        return None
    out = {}
    for idx, name in variants(facts, adt):
        it = Interp(facts, idx, memo=memo, subject_adt=adt, subject_calls=() if adt != OPERATION else ("graphs::Node::get_operation",))
        res = it.run(b, {1: SUBJ})
        out[name] = res.ret
    return out


def executable_under(facts, body, site_values=None, forced=None, call_models=None, params=None):
    """the part of `body` that can execute when particular call sites / locals are assumed to yield given values
    (robust to how a guard is spelled: if / match / tuple patterns / let-bound booleans all lower to switches
    on values the interpreter tracks)"""
    it = Interp(facts, -1, subject_calls=(), subject_adt="<none>", site_values=site_values or {},
                call_models=call_models or {})
    if forced:
        it.forced = {body.id: forced}
    return it.run(body, params)
