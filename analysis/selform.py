"""E8 — selection forms: an affine abstract domain for graph builders that combine a few inputs under a selector bit.

The builder of a selector-weighted operation (the multiplexer) creates a handful of nodes with add / subtract / multiply /
mixed_multiply / ones / zeros.  For each Node-valued call result we compute, for BOTH values f in {0,1} of the selector
input, an affine form over the other inputs:  value(f) = sum_s coef_s(f) * s + const(f), with coefficients in Z_2 when the
value is bit-typed and in Z otherwise.  The domain is exact for such builders (the result is affine in the choices once the
selector is fixed), so the form of the output node states, for every input, which operand is selected.  Anything outside
the recognised operations is TOP and is never judged.  Nothing is executed: the forms are computed over the producer graph
(E3 origins) of the builder's MIR.
"""
from .flow import Flow
from .facts import callee_name
from . import cfg as C

TOP = "TOP"
ADD = ("graphs::Node::add", "graphs::Graph::add")
SUB = ("graphs::Node::subtract", "graphs::Graph::subtract")
MUL = ("graphs::Node::multiply", "graphs::Graph::multiply")
MIXED = ("graphs::Node::mixed_multiply", "graphs::Graph::mixed_multiply")
INPUT = "graphs::Graph::input"


def is_bit_const(body, fl, op, at):
    """does the operand denote the constant data_types::BIT (directly, or through a promoted `&BIT`)"""
    if op[0] == "k":
        return op[2] == "data_types::BIT"
    ors = fl.origins(op, at)
    if not ors:
        return False
    for o in ors:
        if o[0] != "const":
            return False
        txt = o[2] or ""
        if txt == "data_types::BIT":
            continue
        if "::promoted[" in txt:
            k = int(txt.rsplit("[", 1)[1].rstrip("]"))
            pb = body.promoted_body(k)
            if pb is not None and any(s[0] == "=" and s[2][0] == "use" and s[2][1][0] == "k" and s[2][1][2] == "data_types::BIT"
                                      for i in range(pb.nblocks()) for s in pb.stmts(i)):
                continue
        return False
    return True


class SelForms:
    def __init__(self, facts, body, choice_kind, live=None):
        """choice_kind: "bit" | "int" — the scalar kind of the non-selector inputs on the path under analysis"""
        self.facts, self.b = facts, body
        self.fl = Flow(facts, body, {"graphs::Node::set_as_output": [0], "graphs::Node::set_name": [0]}, live_blocks=live) \
            if live is not None else Flow(facts, body, {"graphs::Node::set_as_output": [0], "graphs::Node::set_name": [0]})
        self.ck = choice_kind
        self.memo = {}
        ins = [bb for bb, t in body.calls() if callee_name(t) == INPUT and not body.is_cleanup(bb)]
        # creation order = dominance order
        ok = all(C.dominates(body, ins[i], ins[i + 1]) for i in range(len(ins) - 1)) if ins else False
        if not ok:
            ins = sorted(ins)
            ok = all(C.dominates(body, ins[i], ins[i + 1]) for i in range(len(ins) - 1))
        self.inputs = ins if ok else None

    # a form: {f: (kind, {sym: coef})}
    def _norm(self, kind, co):
        if kind == "bit":
            co = {s: v % 2 for s, v in co.items()}
        return kind, {s: v for s, v in co.items() if v != 0}

    def of_operand(self, op, at, stack=()):
        if op[0] == "k":
            return TOP
        ors = self.fl.origins(op, at)
        calls = {o[1] for o in ors if o[0] == "call"}
        if len(calls) != 1 or any(o[0] != "call" for o in ors):
            return TOP
        return self.of_call(calls.pop(), stack)

    def node_args(self, t):
        return [a for a in t["args"] if a[0] != "k" and "graphs::Node" in self.b.local_ty(a[1][0])]

    def of_call(self, bb, stack=()):
        if bb in self.memo:
            return self.memo[bb]
        if bb in stack or len(stack) > 40:
            return TOP
        stack = stack + (bb,)
        b = self.b
        t = b.term(bb)
        cn = callee_name(t) or ""
        res = TOP
        if cn == INPUT and self.inputs and bb in self.inputs:
            k = self.inputs.index(bb)
            if k == 0:
                res = {f: self._norm("bit", {"1": f}) for f in (0, 1)}
            else:
                res = {f: self._norm(self.ck, {"in%d" % k: 1}) for f in (0, 1)}
        elif cn in ADD or cn in SUB:
            xs = [self.of_operand(a, (bb, None), stack) for a in self.node_args(t)]
            if len(xs) == 2 and TOP not in xs:
                res = {}
                for f in (0, 1):
                    (k1, c1), (k2, c2) = xs[0][f], xs[1][f]
                    if k1 != k2:
                        res = TOP
                        break
                    sign = -1 if cn in SUB else 1
                    co = dict(c1)
                    for s, v in c2.items():
                        co[s] = co.get(s, 0) + sign * v
                    res[f] = self._norm(k1, co)
        elif cn in MUL or cn in MIXED:
            xs = [self.of_operand(a, (bb, None), stack) for a in self.node_args(t)]
            if len(xs) == 2 and TOP not in xs:
                res = {}
                for f in (0, 1):
                    (k1, c1), (k2, c2) = xs[0][f], xs[1][f]
                    if cn in MIXED and not (k1 == "int" and k2 == "bit"):
                        res = TOP
                        break
                    if cn in MUL and k1 != k2:
                        res = TOP
                        break
                    # one factor must be a known constant for this selector value
                    if set(c2) <= {"1"}:
                        scal, other, kind = c2.get("1", 0), c1, k1
                    elif set(c1) <= {"1"}:
                        scal, other, kind = c1.get("1", 0), c2, (k1 if cn in MUL else "int")
                    else:
                        res = TOP
                        break
                    res[f] = self._norm(kind, {s: v * scal for s, v in other.items()})
        elif cn in ("graphs::Graph::ones", "graphs::Graph::zeros"):
            ta = t["args"][-1]
            kind = None
            for o in self.fl.origins(ta, (bb, None)):
                if o[0] == "call" and o[2] == "data_types::scalar_type":
                    kind = "bit" if is_bit_const(b, self.fl, b.term(o[1])["args"][0], (o[1], None)) else None
            if kind:
                res = {f: self._norm(kind, {"1": 1 if cn.endswith("ones") else 0}) for f in (0, 1)}
        self.memo[bb] = res
        return res


def fmt(form):
    if form == TOP:
        return "not an affine selection form (unrecognised operation)"
    out = []
    for f in (0, 1):
        kind, co = form[f]
        terms = ["%s%s" % ("" if v == 1 else "%d*" % v, {"in1": "arg1", "in2": "arg2", "1": "1"}.get(s, s)) for s, v in sorted(co.items())]
        out.append("selector=%d: %s" % (f, " + ".join(terms) if terms else "0"))
    return "; ".join(out)
