"""E1 — CFG queries over MIR bodies: reachability with pruned edges, dominators,
must-pass-through, error exits, boolean/discriminant provenance of switches."""
from .facts import callee_name


def edges(body, unwind=False):
    for b in range(body.nblocks()):
        for s in body.succs(b, unwind):
            yield b, s


def reachable(body, starts, removed_edges=None, removed_blocks=None, unwind=False):
    """set of blocks reachable from `starts` (inclusive) without traversing removed
    edges / entering removed blocks.  A removed start block is not expanded."""
    removed_edges = removed_edges or ()
    removed_blocks = removed_blocks or ()
    seen = set()
    stack = [s for s in starts if s not in removed_blocks]
    while stack:
        b = stack.pop()
        if b in seen:
            continue
        seen.add(b)
        for s in body.succs(b, unwind):
            if (b, s) in removed_edges or s in removed_blocks or s in seen:
                continue
            stack.append(s)
    return seen


def reachable_after(body, bb, removed_edges=None, removed_blocks=None, unwind=False):
    """blocks reachable strictly after executing the terminator of bb"""
    removed_edges = removed_edges or ()
    starts = [s for s in body.succs(bb, unwind) if (bb, s) not in removed_edges]
    return reachable(body, starts, removed_edges, removed_blocks, unwind)


def must_pass(body, frm, to_set, through_set, removed_edges=None, after=True):
    """True iff every path from `frm` (after its terminator when after=True) to a block of
    to_set contains a block of through_set."""
    if after:
        r = reachable_after(body, frm, removed_edges, set(through_set))
    else:
        r = reachable(body, [frm], removed_edges, set(through_set))
    return not (r & set(to_set))


def find_path(body, starts, targets, removed_edges=None, removed_blocks=None):
    """one witness path (list of blocks) from a start to a target, or None"""
    removed_edges = removed_edges or ()
    removed_blocks = removed_blocks or ()
    targets = set(targets)
    prev = {}
    queue = [s for s in starts if s not in removed_blocks]
    for s in queue:
        prev[s] = None
    i = 0
    while i < len(queue):
        b = queue[i]
        i += 1
        if b in targets:
            path = []
            while b is not None:
                path.append(b)
                b = prev[b]
            return path[::-1]
        for s in body.succs(b):
            if (b, s) in removed_edges or s in removed_blocks or s in prev:
                continue
            prev[s] = b
            queue.append(s)
    return None


def dominators(body):
    """dom[b] = set of blocks dominating b (reflexive), over normal edges, from bb0"""
    if "dom" in body._cache:
        return body._cache["dom"]
    n = body.nblocks()
    reach = reachable(body, [0])
    preds = {b: [] for b in range(n)}
    for a, b in edges(body):
        preds[b].append(a)
    full = set(reach)
    dom = {b: set(full) for b in reach}
    dom[0] = {0}
    changed = True
    order = sorted(reach)
    while changed:
        changed = False
        for b in order:
            if b == 0:
                continue
            ps = [p for p in preds[b] if p in reach]
            new = None
            for p in ps:
                new = set(dom[p]) if new is None else (new & dom[p])
            new = (new or set()) | {b}
            if new != dom[b]:
                dom[b] = new
                changed = True
    body._cache["dom"] = dom
    return dom


def dominates(body, a, b):
    d = dominators(body)
    return b in d and a in d[b]


def back_edges(body):
    d = dominators(body)
    out = []
    for a, b in edges(body):
        if a in d and b in d[a]:
            out.append((a, b))
    return out


def natural_loop(body, back_edge):
    a, h = back_edge
    preds = {}
    for x, y in edges(body):
        preds.setdefault(y, []).append(x)
    loop = {h}
    stack = [a]
    while stack:
        b = stack.pop()
        if b in loop:
            continue
        loop.add(b)
        stack.extend(preds.get(b, []))
    return loop


def loops(body):
    """list of (header, set_of_blocks); loops with the same header are merged"""
    if "loops" in body._cache:
        return body._cache["loops"]
    byh = {}
    for be in back_edges(body):
        byh.setdefault(be[1], set()).update(natural_loop(body, be))
    out = sorted(byh.items())
    body._cache["loops"] = out
    return out


# ------------------------------------------------------------------ exits

def return_blocks(body):
    return [b for b in range(body.nblocks()) if body.term(b)["k"] == "ret"]


def panic_blocks(body):
    """blocks whose terminator is a diverging call (no target) that is not in cleanup"""
    out = []
    for b, t in body.calls():
        if t.get("t") is None and not body.is_cleanup(b) and not t.get("tail"):
            out.append(b)
    return out


def error_exit_blocks(body):
    """blocks that set the return place to an Err: `_0 = from_residual(..)` or `_0 = Err(..)`"""
    if "errexits" in body._cache:
        return body._cache["errexits"]
    out = set()
    for b in range(body.nblocks()):
        t = body.term(b)
        if t["k"] == "call" and t["dest"] == [0]:
            n = callee_name(t) or ""
            if "from_residual" in n:
                out.add(b)
        for s in body.stmts(b):
            if s[0] == "=" and s[1] == [0] and s[2][0] == "agg":
                k = s[2][1]
                if k.get("k") == "adt" and k.get("adt") == "std::result::Result" and k.get("vn") == "Err":
                    out.add(b)
    body._cache["errexits"] = out
    return out


def ok_exit_blocks(body):
    """blocks that set `_0 = Ok(..)`"""
    out = set()
    for b in range(body.nblocks()):
        for s in body.stmts(b):
            if s[0] == "=" and s[1] == [0] and s[2][0] == "agg":
                k = s[2][1]
                if k.get("k") == "adt" and k.get("adt") == "std::result::Result" and k.get("vn") == "Ok":
                    out.add(b)
    return out


# ------------------------------------------------------------------ switch provenance

def _single_defs(body):
    """local -> list of (bb, kind, payload) for whole-local definitions"""
    if "defs" in body._cache:
        return body._cache["defs"]
    defs = {}
    for b in range(body.nblocks()):
        for j, s in enumerate(body.stmts(b)):
            if s[0] == "=" and len(s[1]) == 1:
                defs.setdefault(s[1][0], []).append((b, j, "stmt", s[2]))
        t = body.term(b)
        if t["k"] == "call" and len(t["dest"]) == 1:
            defs.setdefault(t["dest"][0], []).append((b, None, "call", t))
    body._cache["defs"] = defs
    return defs


def switch_source(body, bb):
    """Describe what a switch terminator tests.  Returns a dict:
       {"kind":"call","bb":call_block,"neg":bool}            -- boolean result of a call (possibly negated)
       {"kind":"discr","place":place,"adt":adt,"bb":b}       -- discriminant of a place
       {"kind":"cmp","op":..,"a":..,"b":..,"neg":bool,"bb":b,"j":j} -- comparison
       {"kind":"local","local":l,"neg":bool} / {"kind":"unknown"}"""
    t = body.term(bb)
    if t["k"] != "switch":
        return None
    op = t["op"]
    return trace_scalar(body, op)


def trace_scalar(body, op, neg=False, depth=0):
    if op[0] == "k":
        return {"kind": "const", "val": op[4], "neg": neg}
    place = op[1]
    if len(place) != 1:
        return {"kind": "place", "place": place, "neg": neg}
    l = place[0]
    defs = _single_defs(body).get(l, [])
    if len(defs) != 1 or depth > 12:
        return {"kind": "local", "local": l, "neg": neg, "ndefs": len(defs)}
    b, j, kind, payload = defs[0]
    if kind == "call":
        return {"kind": "call", "bb": b, "neg": neg, "callee": callee_name(payload)}
    rv = payload
    if rv[0] == "use":
        return trace_scalar(body, rv[1], neg, depth + 1)
    if rv[0] == "un" and rv[1] == "Not":
        return trace_scalar(body, rv[2], not neg, depth + 1)
    if rv[0] == "discr":
        return {"kind": "discr", "place": rv[1], "adt": rv[2], "bb": b, "j": j, "neg": neg}
    if rv[0] == "bin":
        return {"kind": "cmp", "op": rv[1], "a": rv[2], "b": rv[3], "neg": neg, "bb": b, "j": j}
    if rv[0] == "cast":
        return trace_scalar(body, rv[2], neg, depth + 1)
    return {"kind": "rvalue", "rv": rv, "neg": neg, "bb": b, "j": j}


def switch_edges_for_bool(body, bb, value):
    """edges of switch bb that are EXCLUDED when the tested boolean equals `value`"""
    t = body.term(bb)
    removed = set()
    want = "1" if value else "0"
    hit = None
    for v, tgt in t["arms"]:
        if v == want:
            hit = tgt
    if hit is None:
        # value goes to else; remove the explicit arms that do not match
        for v, tgt in t["arms"]:
            if tgt != t["else"]:
                removed.add((bb, tgt))
    else:
        for v, tgt in t["arms"]:
            if v != want and tgt != hit:
                removed.add((bb, tgt))
        # bool switches are [0: F, otherwise: T]; `otherwise` means 1
        if len(t["arms"]) == 1 and t["arms"][0][0] == "0" and want == "1":
            pass
        if t["else"] != hit:
            # does else cover `want`?  only if want not listed
            removed.add((bb, t["else"]))
    return removed


def bool_switch_removed(body, bb, value):
    """For a 2-way boolean switch (arms [0:F], else T): edges removed assuming test == value."""
    t = body.term(bb)
    arms = dict(t["arms"])
    if value:
        # keep target for 1 (explicit or else), remove others
        keep = arms.get("1", t["else"])
    else:
        keep = arms.get("0", t["else"])
    rem = set()
    for s in set(list(arms.values()) + [t["else"]]):
        if s != keep:
            rem.add((bb, s))
    return rem


def variant_switch_removed(body, bb, variant_idx):
    """edges removed of a discriminant switch assuming discriminant == variant_idx"""
    t = body.term(bb)
    arms = dict(t["arms"])
    keep = arms.get(str(variant_idx), t["else"])
    rem = set()
    for s in set(list(arms.values()) + [t["else"]]):
        if s != keep:
            rem.add((bb, s))
    return rem


def assume_call_results(body, assumptions):
    """assumptions: list of (predicate(callee_name, call_term, bb) -> bool, value).
    Returns the set of removed edges: every switch testing (a possibly negated copy of)
    the boolean result of a matching call takes the edge consistent with `value`."""
    removed = set()
    for b in range(body.nblocks()):
        t = body.term(b)
        if t["k"] != "switch":
            continue
        src = switch_source(body, b)
        if src and src["kind"] == "call":
            ct = body.term(src["bb"])
            for pred, value in assumptions:
                if pred(src["callee"], ct, src["bb"]):
                    v = value if not src["neg"] else (not value)
                    removed |= bool_switch_removed(body, b, v)
    return removed
