"""Verdict discipline: obligations, violations, known findings, evidence files."""
import json, os, time

VERIF = os.path.dirname(os.path.dirname(os.path.abspath(__file__)))


class Reporter:
    def __init__(self, pid, tier, level):
        self.pid = pid
        self.tier = tier
        self.level = level
        self.t0 = time.time()
        self.obligations = []   # (rule, key, ok)
        self.violations = []    # dicts
        self.notes = []
        self.samples = []
        self.rules = {}         # rule id -> {"text":..., "instances":n, "discharged":n}
        self.analysed = {}
        self.tables = {}
        self.assumptions = []
        self.trusted = []
        self.unjudged = []      # inner anchors / partial floors: the rule could not recognise the structure it reasons about

    # ---- rule registration
    def rule(self, rid, text):
        self.rules.setdefault(rid, {"text": text, "instances": 0, "discharged": 0})

    def ob(self, rid, key, ok, msg="", loc="", extra=None):
        """record one obligation of rule `rid`; a failed obligation is a violation"""
        r = self.rules.setdefault(rid, {"text": "", "instances": 0, "discharged": 0})
        r["instances"] += 1
        full = "%s|%s" % (rid, key)
        self.obligations.append((rid, full, bool(ok)))
        if ok:
            r["discharged"] += 1
            if len([s for s in self.samples if s.get("rule") == rid]) < 3:
                self.samples.append({"rule": rid, "instance": key, "loc": loc, "verdict": "discharged",
                                     "detail": msg})
        else:
            self.violations.append({"property": self.pid, "rule": rid, "key": full, "loc": loc,
                                    "message": msg, "extra": extra or {}})
        return ok

    def fail(self, rid, key, msg, loc="", extra=None):
        return self.ob(rid, key, False, msg, loc, extra)

    def floor(self, rid, what, count, minimum):
        """a rule that matches NOTHING fails closed (the engine or the tree changed fundamentally); a rule that matches fewer
        instances than on the confirmed tree is reported as UNJUDGED for the missing part - code was restructured in a way the
        rule does not read, which is not evidence of a violation"""
        if count == 0:
            self.ob(rid, "floor:%s" % what, False,
                    "%s: no instance found (at least %d on the confirmed tree): the rule matches nothing" % (what, minimum))
            return
        if count < minimum:
            self._unjudged(rid, "floor:%s" % what, "%s: %d instance(s) found, %d on the confirmed tree" % (what, count, minimum))
            return
        self.ob(rid, "floor:%s" % what, True, "%s: %d instance(s) (sanity bound %d)" % (what, count, minimum))

    def anchor(self, rid, name, obj):
        """entry anchors (a function named by the property is gone: `a::b::c` with no body) fail closed; inner anchors (the
        function is there but the construct the rule reasons about is not recognised) make the rule UNJUDGED"""
        if obj is None or obj == [] or obj == {} or obj is False or obj == set() or obj == ():
            is_entry = obj is None and "::" in name and "|" not in name and " " not in name.strip()
            if is_entry:
                self.fail(rid, "anchor:%s" % name, "anchor lost: %s not found in the analysed program" % name)
            else:
                self._unjudged(rid, "anchor:%s" % name, "%s not recognised in the analysed program" % name)
            return False
        return True

    def _unjudged(self, rid, key, msg):
        self.rules.setdefault(rid, {"text": "", "instances": 0, "discharged": 0})
        self.unjudged.append({"rule": rid, "key": "%s|%s" % (rid, key), "message": msg})
        print("UNJUDGED property=%s rule=%s %s" % (self.pid, rid, msg))

    def note(self, msg):
        self.notes.append(msg)

    # ---- finish
    def finish(self, seed=0, info=None):
        known = load_known()
        kf = {(k["property"], k["key"]): k for k in known.get("findings", [])}
        unknown = []
        lines = []
        seen_known = set()
        for v in self.violations:
            k = kf.get((self.pid, v["key"]))
            if k is not None:
                if v["key"] not in seen_known:
                    lines.append("KNOWN-FINDING: property=%s %s [%s]" % (self.pid, k["what"], v["key"]))
                    seen_known.add(v["key"])
            else:
                unknown.append(v)
        rdir = os.path.join(os.environ.get("VERIF_EVIDENCE_DIR") or os.path.join(VERIF, "evidence"), "replay")
        os.makedirs(rdir, exist_ok=True)
        for f in os.listdir(rdir):
            if f.startswith(self.pid + "-"):
                os.remove(os.path.join(rdir, f))
        for i, v in enumerate(unknown):
            p = os.path.join(rdir, "%s-%d.json" % (self.pid, i))
            with open(p, "w") as fh:
                json.dump(v, fh, indent=1)
            print("%s: [%s] %s" % (v["loc"] or "-", v["key"], v["message"]))
            lines.append("VIOLATION property=%s replay=%s" % (self.pid, os.path.relpath(p, VERIF)))
        nob = len(self.obligations)
        ndis = sum(1 for o in self.obligations if o[2])
        distinct = len(set(o[1] for o in self.obligations))
        cov = {
            "explanation": "static analysis of rustc MIR/ADT/impl facts of /repo's current tree: %d obligation(s) over %d rule(s); "
                           "each obligation is one rule instance (call site / function / variant / field) decided without running ciphercore"
                           % (nob, len(self.rules)),
            "obligations": nob,
            "discharged": ndis,
            "evaluations": nob,
            "distinct_nontrivial": distinct,
            "rule": "instances are enumerated from the extracted program (never from a frozen list); distinct = distinct instance keys",
            "exhaustive": True,
            "checker_cmd": "./check %s --tier %s" % (self.pid, self.tier),
            "unjudged": self.unjudged,
            "trusted_base": ["rustc nightly MIR construction and callee resolution", "ccfacts driver (fact dump)",
                             "python rule engines in /verif/analysis", "hand-written tables printed under coverage.tables"] + self.trusted,
            "rules": self.rules,
            "analysed": self.analysed,
            "tables": self.tables,
            "samples": self.samples[:40] or [{"note": "no instances"}],
            "known_findings_reported": sorted(seen_known),
            "notes": self.notes[:60],
        }
        if info:
            cov["extraction"] = info
        ev = {
            "property_id": self.pid,
            "tier": self.tier,
            "seed": int(seed),
            "level": self.level,
            "coverage": cov,
            "assumptions": self.assumptions,
            "wall_s": round(time.time() - self.t0, 2),
            "violations": len(unknown),
        }
        edir = os.environ.get("VERIF_EVIDENCE_DIR") or os.path.join(VERIF, "evidence")
        os.makedirs(edir, exist_ok=True)
        with open(os.path.join(edir, "%s.json" % self.pid), "w") as fh:
            json.dump(ev, fh, indent=1, sort_keys=True)
        for l in lines:
            print(l)
        print("%s: %d obligation(s), %d discharged, %d known finding(s), %d violation(s)  [%s tier, %.1fs]"
              % (self.pid, nob, ndis, len(seen_known), len(unknown), self.tier, time.time() - self.t0))
        return 1 if unknown else 0


def load_known():
    p = os.path.join(VERIF, "known_findings.json")
    if os.path.exists(p):
        with open(p) as fh:
            return json.load(fh)
    return {"findings": [], "fixed": []}
