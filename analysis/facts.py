"""Loader and indexes for the JSON facts written by the ccfacts driver.

Operand  : ["c"|"m", place] | ["k", ty, text, fn_path|None, int_text|None]
Place    : [local, proj, ...]   proj: "*", "f<i>:<name>", "d<i>:<Variant>", "i<local>", "c<off>", "s", "o"
Statement: ["=", place, rvalue, line, from_expansion] | ["setdiscr", place, variant, line, x]
Rvalue   : ["use",op] ["ref",kind,place] ["raw",kind,place] ["bin",op,a,b] ["un",op,a]
           ["cast",kind,op,ty] ["agg",{k:..},[ops]] ["discr",place,adt] ["repeat",op] ["other",text]
Terminator: dict with k in goto|switch|ret|unreachable|resume|drop|call|assert|other|none
"""
import json, os, pickle


class Body:
    __slots__ = ("id", "kind", "file", "line", "vis", "impl", "root", "argc", "locals",
                 "vars", "blocks", "crate", "promoted", "_succ", "_pred", "_varname", "_cache")

    def __init__(self, d, crate):
        self.id = d["id"]
        self.kind = d["kind"]
        self.file = d["file"]
        self.line = d["line"]
        self.vis = d["vis"]
        self.impl = d["impl"]
        self.root = d["root"]
        self.argc = d["argc"]
        self.locals = d["locals"]
        self.vars = d["vars"]
        self.blocks = d["blocks"]
        self.crate = crate
        self.promoted = d.get("promoted", [])
        self._succ = None
        self._pred = None
        self._varname = None
        self._cache = {}

    def promoted_body(self, k):
        """the k-th promoted constant of this body as a (parameterless) Body"""
        key = ("promoted", k)
        if key not in self._cache:
            if k >= len(self.promoted):
                return None
            d = dict(self.promoted[k])
            d.update({"id": "%s::promoted[%d]" % (self.id, k), "kind": "promoted", "file": self.file, "line": self.line,
                      "vis": "na", "impl": None, "root": self.id, "argc": 0})
            self._cache[key] = Body(d, self.crate)
        return self._cache[key]

    # ---- basic accessors
    def nblocks(self):
        return len(self.blocks)

    def term(self, bb):
        return self.blocks[bb]["t"]

    def stmts(self, bb):
        return self.blocks[bb]["s"]

    def is_cleanup(self, bb):
        return self.blocks[bb]["c"]

    def local_ty(self, l):
        return self.locals[l][0]

    def local_adt(self, l):
        return self.locals[l][1]

    def var_name(self, l):
        if self._varname is None:
            m = {}
            for name, place in self.vars:
                if len(place) == 1:
                    m.setdefault(place[0], name)
            self._varname = m
        return self._varname.get(l)

    def locals_named(self, name):
        return [p[0] for n, p in self.vars if n == name and len(p) == 1]

    def loc(self, bb=None):
        if bb is None:
            return "%s:%d" % (self.file, self.line)
        return "%s:%d" % (self.file, self.term(bb).get("l", self.line))

    # ---- CFG
    def succs(self, bb, unwind=False):
        t = self.blocks[bb]["t"]
        k = t["k"]
        if k == "goto":
            return [t["t"]]
        if k == "switch":
            out = [b for _, b in t["arms"]]
            out.append(t["else"])
            return out
        if k in ("call", "drop", "assert"):
            out = []
            if t.get("t") is not None:
                out.append(t["t"])
            if unwind and t.get("u") is not None:
                out.append(t["u"])
            return out
        return []

    def calls(self):
        for i, b in enumerate(self.blocks):
            t = b["t"]
            if t["k"] == "call":
                yield i, t

    def assigns(self):
        """yield (bb, stmt_index, place, rvalue)"""
        for i, b in enumerate(self.blocks):
            for j, s in enumerate(b["s"]):
                if s[0] == "=":
                    yield i, j, s[1], s[2]


def callee_name(t):
    """resolved callee path of a call terminator (impl method when resolvable)"""
    f = t["f"]
    if "def" in f:
        return f["res"] or f["def"]
    return None


def callee_def(t):
    f = t["f"]
    return f.get("def")


class Facts:
    def __init__(self, crates):
        self.crates = crates  # list of raw dicts
        self.bodies = {}
        self.adts = {}
        self.impls = []
        self.closures = {}
        for c in crates:
            cname = c["crate"]
            for bd in c["bodies"]:
                b = Body(bd, cname)
                key = b.id
                if key in self.bodies:
                    key = cname + "::" + key  # bins may share paths such as `main`
                    b.id = key
                self.bodies[key] = b
                if b.kind == "closure" and b.root:
                    self.closures.setdefault(b.root, []).append(b)
            for a in c["adts"]:
                self.adts.setdefault(a["path"], a)
            for im in c["impls"]:
                im = dict(im)
                im["crate"] = cname
                self.impls.append(im)

    def body(self, id):
        return self.bodies.get(id)

    def bodies_in_file(self, suffix):
        return [b for b in self.bodies.values() if b.file.endswith(suffix)]

    def impls_of_trait(self, trait):
        return [im for im in self.impls if im["trait"] == trait]

    def impl_of(self, trait, adt):
        for im in self.impls:
            if im["trait"] == trait and im["adt"] == adt:
                return im
        return None

    def closures_of(self, root_id):
        return self.closures.get(root_id, [])

    def family(self, root_id):
        """a function body together with the closures defined in it"""
        b = self.bodies.get(root_id)
        out = [b] if b else []
        out.extend(self.closures_of(root_id))
        return out

    def stats(self):
        nb = len(self.bodies)
        nc = sum(1 for b in self.bodies.values() for _ in b.calls())
        return {"bodies": nb, "call_sites": nc, "adts": len(self.adts), "impls": len(self.impls)}


def load_facts(dirpath, names=None):
    crates = []
    for fn in sorted(os.listdir(dirpath)):
        if not fn.endswith(".json"):
            continue
        if names is not None and fn not in names:
            continue
        with open(os.path.join(dirpath, fn)) as f:
            crates.append(json.load(f))
    return Facts(crates)
