"""C16 — one clause of the comparison property: minimum / maximum are "comparison + multiplexer" wired in the right
orientation, with the signed mode of the operation handed to the comparison.

Min and Max touch their two operands only through one comparison custom operation and one Mux, so their result is a
function of the ORDERING of the operands alone: three cases decide it for every width, signedness and broadcast shape.
E9 (analysis/cmpsel.py) reads the builder as a term Mux(Cmp(p, q), x, y) over its two inputs and evaluates it under the
three orderings with the documented meaning of the components (the comparison named, C17.M for the multiplexer).  The
correctness of the comparison circuits themselves (two-bit state, shrink, msb flip) is NOT decided here."""
from ..facts import callee_name
from .. import cmpsel as S

BUILDERS = {
    "Min": ("<ops::min_max::Min as custom_ops::CustomOperationBody>::instantiate", {"lt": 0, "gt": 1}),
    "Max": ("<ops::min_max::Max as custom_ops::CustomOperationBody>::instantiate", {"lt": 1, "gt": 0}),
}
OUT = ("graphs::Graph::set_output_node", "graphs::Node::set_as_output")


def run(facts, rep, tier):
    rep.rule("C16.O", "orientation: the output of Min (Max), read as a comparison/selection term over its two inputs, evaluates to "
                      "the smaller (larger) operand under each of the three orderings first<second, first=second, first>second")
    rep.rule("C16.S", "signed mode: every comparison built by Min / Max takes its signed_comparison flag from the operation's own "
                      "field (not a constant, not its negation)")
    table = {}
    judged = 0
    for name, (fn, want) in sorted(BUILDERS.items()):
        b = facts.body(fn)
        if not rep.anchor("C16.O", fn, b):
            continue
        cs = S.CmpSel(facts, b)
        outs = [bb for bb, t in b.calls() if callee_name(t) in OUT and not b.is_cleanup(bb)]
        if not rep.anchor("C16.O", "output site in %s::instantiate" % name, outs):
            continue
        if not rep.anchor("C16.O", "two inputs created in order in %s::instantiate" % name, cs.inputs and len(cs.inputs) == 2):
            continue
        for k, o in enumerate(outs):
            t = b.term(o)
            node_arg = t["args"][-1] if callee_name(t) == OUT[0] else t["args"][0]
            term = cs.of_operand(node_arg, (o, None))
            table["%s#%d" % (name, k)] = S.fmt(term)
            if term == S.TOP:
                rep._unjudged("C16.O", "%s|term" % name, "%s::instantiate builds its output with operations outside the comparison/"
                              "selection domain (%s); not judged" % (name, "; ".join(cs.why_top[:2])))
                continue
            vals = {o_: S.evaluate(term, o_) for o_ in S.ORDERINGS}
            if any(not (isinstance(v, tuple) and v[0] == "in") for v in vals.values()):
                rep._unjudged("C16.O", "%s|eval" % name, "%s::instantiate: the output term %s does not evaluate to an operand" % (name, S.fmt(term)))
                continue
            judged += 1
            bad = [o_ for o_ in ("lt", "gt") if vals[o_] != ("in", want[o_])]
            desc = ", ".join("first %s second -> arg%d" % ({"lt": "<", "eq": "=", "gt": ">"}[o_], vals[o_][1]) for o_ in S.ORDERINGS)
            rep.ob("C16.O", "%s|orientation" % name, not bad,
                   "%s = %s: %s" % (name, S.fmt(term), desc) if not bad else
                   "%s::instantiate returns %s, i.e. %s: for %s it yields the %s operand" % (
                       name, S.fmt(term), desc, " and ".join("first %s second" % {"lt": "<", "gt": ">"}[x] for x in bad),
                       "larger" if name == "Min" else "smaller"), b.loc(o))
            for c in S.cmps_of(term):
                s = c[2]
                if s == "self":
                    rep.ob("C16.S", "%s|%s" % (name, c[1].rsplit("::", 1)[-1]), True,
                           "%s hands self.signed_comparison to %s" % (name, c[1].rsplit("::", 1)[-1]), b.loc(o))
                elif s == "none":
                    continue        # Equal / NotEqual have no signed mode
                elif s == "?":
                    rep._unjudged("C16.S", "%s|signed" % name, "%s::instantiate: origin of the comparison's signed_comparison flag not recognised" % name)
                else:
                    rep.fail("C16.S", "%s|%s" % (name, c[1].rsplit("::", 1)[-1]),
                             "%s::instantiate builds %s with signed_comparison = %s instead of the operation's own flag: signed and "
                             "unsigned %s differ whenever exactly one operand has its top bit set" % (
                                 name, c[1].rsplit("::", 1)[-1], "its negation" if s == ("neg",) else "the constant %s" % (s[1],), name), b.loc(o))
    rep.tables["min_max_terms"] = table
    rep.analysed["min_max_builders_judged"] = judged
    rep.floor("C16.O", "Min/Max builders judged or explicitly unjudged", len(table), 2)
