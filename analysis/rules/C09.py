"""C09 — type inference is sound for evaluation; ill-typed arguments are rejected, not crashed (structural clauses)."""
from ..flow import Flow, transparent_args
from ..facts import callee_name
from .. import cfg as C
from .. import vcai as V
from .. import callgraph as CG

TYPE = "data_types::Type"
SLICE_FILES = ("type_inference.rs", "broadcast.rs", "slices.rs", "join_utils.rs", "data_types.rs")
ENTRY = "type_inference::TypeInferenceWorker::process_node"
# constructors with a statically known result variant
CTOR_VARIANT = {
    "data_types::array_type": "Array", "data_types::scalar_type": "Scalar", "data_types::tuple_type": "Tuple",
    "data_types::vector_type": "Vector", "data_types::named_tuple_type": "NamedTuple",
}


def partial_accessors(facts):
    """methods of Type that panic for some variants: name -> set of admissible variant names (derived)"""
    out = {}
    for n, b in facts.bodies.items():
        if b.impl and b.impl.get("adt") == TYPE and not b.impl.get("trait") and b.argc >= 1 \
                and b.local_ty(1) == "&" + TYPE and b.kind == "assoc":
            if not C.panic_blocks(b):
                continue
            tb = V.predicate_table(facts, n, adt=TYPE)
            adm = {k for k, v in tb.items() if v != V.BOT}
            if len(adm) < len(tb):
                out[n] = adm
    return out


def in_slice_file(b):
    return b.file.endswith(SLICE_FILES)


VALUE_PRESERVING = ("::clone", "::to_owned", "::deref", "::as_ref", "::borrow", "::deref_mut", "::as_mut")


def base_local(fl, b, op, depth=0):
    """earliest local holding the same Type value as operand `op` (through whole-local refs/copies/clones)"""
    if op[0] == "k":
        return None
    place = op[1]
    if any(p != "*" for p in place[1:]):
        return None
    l = place[0]
    while depth < 40:
        depth += 1
        ds = fl.defs_of.get(l, [])
        if len(ds) != 1:
            return l
        _, bb, j = fl.defs[ds[0]]
        if bb < 0:
            return l
        if j is not None:
            rv = b.stmts(bb)[j][2]
            src = None
            if rv[0] in ("ref", "raw"):
                src = rv[2]
            elif rv[0] == "use" and rv[1][0] != "k":
                src = rv[1][1]
            if src is None or any(p != "*" for p in src[1:]):
                return l
            l = src[0]
            continue
        t = b.term(bb)
        n = callee_name(t) or ""
        d = t["f"].get("def") or ""
        if (n.endswith(VALUE_PRESERVING) or d in ("std::clone::Clone::clone", "std::ops::Deref::deref")) and len(t["args"]) == 1 \
                and t["args"][0][0] != "k" and not any(p != "*" for p in t["args"][0][1][1:]):
            l = t["args"][0][1][0]
            continue
        return l
    return l


def base_local2(fl, b, op, depth=0):
    """(base local, None) like base_local, or (None, place) when the chain ends in a field projection"""
    place = op[1]
    if any(p != "*" for p in place[1:]):
        return None, place
    l = place[0]
    from ..flow import field_name
    while depth < 40:
        depth += 1
        ds = fl.defs_of.get(l, [])
        if len(ds) != 1:
            return l, None
        _, bb, j = fl.defs[ds[0]]
        if bb < 0:
            return l, None
        if j is not None:
            rv = b.stmts(bb)[j][2]
            src = None
            if rv[0] in ("ref", "raw"):
                src = rv[2]
            elif rv[0] == "use" and rv[1][0] != "k":
                src = rv[1][1]
            if src is None:
                return l, None
            if any(p != "*" for p in src[1:]):
                owner = b.local_adt(src[0])
                a = fl.facts.adts.get(owner) if owner else None
                if a is not None and a["kind"] == "struct" and all(p == "*" or field_name(p) is not None for p in src[1:]):
                    return None, src
                return l, None
            l = src[0]
            continue
        t = b.term(bb)
        n = callee_name(t) or ""
        d = t["f"].get("def") or ""
        if (n.endswith(VALUE_PRESERVING) or d in ("std::clone::Clone::clone", "std::ops::Deref::deref")) and len(t["args"]) == 1 \
                and t["args"][0][0] != "k":
            if any(p != "*" for p in t["args"][0][1][1:]):
                return base_local2(fl, b, t["args"][0], depth)
            l = t["args"][0][1][0]
            continue
        return l, None
    return l, None


# panic constructs of the slice that are unreachable for a reason the engines cannot derive: (function, kind, ordinal) -> reason
PANIC_TABLE = {
    ("process_node", "panic", 0): "Zip: `length` is Some after the loop because at least two dependencies were required just before",
}


def unwrap_of_checked_get(b, fl, bb, t):
    """`m.get(k).unwrap()` dominated by the true edge of `m.contains_key(k)` on the same map and key"""
    ors = fl.origins(t["args"][0], (bb, None))
    gets = [o for o in ors if o[0] == "call" and o[2].endswith("::get")]
    if not gets:
        # Option passed by value: the receiver local is defined by the get call
        a = t["args"][0]
        ds = fl.defs_of.get(a[1][0], [])
        for di in ds:
            _, db, dj = fl.defs[di]
            if db >= 0 and dj is None and (callee_name(b.term(db)) or "").endswith("::get"):
                gets.append(("call", db, callee_name(b.term(db))))
    for g in gets:
        gt = b.term(g[1])
        if len(gt["args"]) < 2:
            continue
        gm = fl.origins(gt["args"][0], (g[1], None))
        gk = fl.origins(gt["args"][1], (g[1], None))
        for cb, ct in b.calls():
            if not (callee_name(ct) or "").endswith("::contains_key") or len(ct["args"]) < 2:
                continue
            if fl.origins(ct["args"][0], (cb, None)) != gm or fl.origins(ct["args"][1], (cb, None)) != gk:
                continue
            res = V.executable_under(fl.facts, b, site_values={(b.id, cb): ("b", False)})
            if bb not in res.blocks:
                return "unwrap of map.get(k) that is unreachable unless map.contains_key(k) held (test at line %s)" % ct.get("l")
    return None


def forced_locals(fl, b, base):
    """locals to bind to the subject: the base local and, when it is an element read with a constant index,
    every other read of the same element of the same container"""
    out = {base}
    ds = fl.defs_of.get(base, [])
    if len(ds) == 1:
        _, bb, j = fl.defs[ds[0]]
        if bb >= 0 and j is None:
            t = b.term(bb)
            if (callee_name(t) or "").endswith("::index") and len(t["args"]) == 2:
                ip = fl._index_path(["c", [base]])
                if ip and ip[1]:
                    for bb2, t2 in b.calls():
                        if (callee_name(t2) or "").endswith("::index") and len(t2["args"]) == 2 and len(t2["dest"]) == 1:
                            ip2 = fl._index_path(["c", t2["dest"]])
                            if ip2 and ip2[0] == ip[0] and ip2[1] == ip[1]:
                                out.add(t2["dest"][0])
    return out


def _chain_closures(facts, b, fl, bb, depth=0, acc=None):
    """closure bodies handed to the iterator adapters that feed the call at block bb (collect(map(iter, closure)))"""
    acc = acc if acc is not None else []
    if depth > 5:
        return acc
    t = b.term(bb)
    for a in t["args"]:
        if a[0] == "k":
            continue
        ty = b.local_ty(a[1][0])
        if "closure@" in ty:
            for cb in facts.closures_of(b.root or b.id):
                if ("closure@%s:%d:" % (cb.file, cb.line)) in ty and cb not in acc:
                    acc.append(cb)
            continue
        for o in fl.origins(a, (bb, None)):
            if o[0] == "call" and o[1] != bb:
                d = (b.term(o[1])["f"].get("def") or "") + " " + (o[2] or "")
                if any(x in d for x in ("std::iter", "IntoIterator", "::map", "::iter", "::into_iter", "::branch", "::enumerate", "::zip", "::filter")):
                    _chain_closures(facts, b, fl, o[1], depth + 1, acc)
    return acc


def run(facts, rep, tier):
    rep.rule("C09.K", "partial accessors of Type (those that panic for some variants; derived by abstract interpretation) are "
                      "only reachable in the type-inference slice when the receiver is known to have an admissible variant: "
                      "assuming any inadmissible variant for the receiver value, every is_*()/match test on the same value "
                      "steers control away from the call (obligation lifted to callers when the receiver is a parameter)")
    rep.rule("C09.A", "arity table vs. constant dependency indices: in each dispatcher, under each Operation variant, a constant "
                      "index into the dependency vectors is smaller than get_number_of_node_dependencies(variant)")
    rep.rule("C09.F", "nodes enter a graph only through add_node_internal: the Node/NodeBody aggregate and the push on nodes occur "
                      "nowhere else; add_node infers the type")
    rep.rule("C09.E", "variants for which the evaluator's evaluate_node can only panic are diverted before it by evaluate_graph")
    acc = partial_accessors(facts)
    rep.tables["partial_accessors"] = {k: sorted(v) for k, v in acc.items()}
    rep.floor("C09.K", "partial accessors of Type", len(acc), 3)
    tvars = V.variants(facts, TYPE)
    cur = {"adt": TYPE, "tidx": {n: i for i, n in tvars}}
    layer = CG.reach(facts, [ENTRY], stop=lambda n: n in facts.bodies and not in_slice_file(facts.bodies[n]))
    layer = {n: v for n, v in layer.items() if in_slice_file(facts.bodies[n])}
    rep.analysed["type_inference_slice_bodies"] = len(layer)
    rep.ob("C09.K", "anchor:" + ENTRY, ENTRY in layer, "entry point of the type-inference slice found")
    callers = {}
    for name in layer:
        b = facts.bodies[name]
        for bb, t in b.calls():
            c = callee_name(t)
            if c in layer and not b.is_cleanup(bb):
                callers.setdefault(c, []).append((name, bb))
    flows = {}

    def flow_of(name):
        if name not in flows:
            flows[name] = Flow(facts, facts.bodies[name])
        return flows[name]

    def has_type(ty):
        return cur["adt"] in ty

    def ok_payloads(fname):
        """operands returned as (the Ok/Some payload of) the result of a slice function: list of (bb, operand)"""
        fb = facts.bodies[fname]
        out = []
        for bb, j, place, rv in fb.assigns():
            if place == [0]:
                if rv[0] == "agg" and rv[1].get("adt") in ("std::result::Result", "std::option::Option") \
                        and rv[1].get("vn") in ("Ok", "Some") and rv[2]:
                    out.append((bb, rv[2][0]))
                elif rv[0] == "use":
                    out.append((bb, rv[1]))
        for bb, t in fb.calls():
            if t["dest"] == [0] and not fb.is_cleanup(bb) and "from_residual" not in (callee_name(t) or ""):
                if callee_name(t) == "std::boxed::box_assume_init_into_vec_unsafe" and t["args"] and t["args"][0][0] != "k":
                    ffl = flow_of(fname)
                    root = ffl.root_of(t["args"][0][1][0])
                    for (wb, wj, place, rv) in ffl.ptr_writes.get(root, ()):
                        if rv[0] == "agg" and rv[1].get("k") == "array":
                            for o in rv[2]:
                                out.append((wb, o))  # vec![a, b]: each element is a payload
                    continue
                out.append((bb, None))  # tail call: result of another function
        return out

    def ret_admissible(g, bad, caller, depth, seen):
        key = ("ret", g)
        if key in seen:
            return True, "(recursive)"
        gb = facts.bodies[g]
        pays = ok_payloads(g)
        if not pays:
            return False, "no analysable return of %s" % g
        for bb, op in pays:
            if op is None:
                t = gb.term(bb)
                cn = callee_name(t)
                if cn in CTOR_VARIANT and cur["adt"] == TYPE:
                    if CTOR_VARIANT[cn] in bad:
                        return False, "%s may return a %s" % (g, CTOR_VARIANT[cn])
                    continue
                if cn in layer and has_type(facts.bodies[cn].local_ty(0)):
                    ok2, why2 = ret_admissible(cn, bad, (g, bb), depth + 1, seen + (key,))
                    if not ok2:
                        return False, why2
                    continue
                if cn and cn.endswith(("::collect", "::from_iter")):
                    # `deps.iter().map(|d| self.process_node(d)).collect::<Result<Vec<_>>>()`: the elements are what the closure
                    # of the chain returns
                    cls = _chain_closures(facts, gb, flow_of(g), bb)
                    if cls:
                        okc = True
                        for c_ in cls:
                            ok2, why2 = ret_admissible(c_.id, bad, (g, bb), depth + 1, seen + (key,))
                            if not ok2:
                                okc, whyc = False, why2
                        if okc:
                            continue
                        return False, whyc
                return False, "%s returns the result of %s" % (g.split("::")[-1], cn)
            if op[0] == "k":
                continue
            ok2, why2 = reachable_under(g, bb, op, bad, depth + 1, seen + (key,), only_caller=caller)
            if not ok2:
                return False, "%s may return a bad value: %s" % (g.split("::")[-1], why2)
        return True, "result of %s is admissible" % g.split("::")[-1]

    def container_validated(name, site_bb, want_origin, bad):
        """table-level validation: a loop over the same container (iteration variable with exactly the origin
        `want_origin`), completed before the use, leaves through an error exit whenever its element is bad"""
        b = facts.bodies[name]
        fl = flow_of(name)
        from ..rules.C12 import loop_iter_switch
        for h, blocks in C.loops(b):
            if site_bb in blocks or not C.dominates(b, h, site_bb):
                continue
            sw = loop_iter_switch(b, h, blocks)
            if sw is None:
                continue
            src = C.switch_source(b, sw)
            nl = src["place"][0]
            itvars = [pl[0] for bb2, j2, pl, rv in b.assigns() if bb2 in blocks and len(pl) == 1 and rv[0] == "use"
                      and rv[1][0] != "k" and rv[1][1][0] == nl and len(rv[1][1]) > 1]
            some_tgt = dict(b.term(sw)["arms"]).get("1", b.term(sw)["else"])
            good = False
            for x in itvars:
                xo = {o for o in fl.origins(["c", [x]], None) if o[0] != "index"}
                if xo != {want_origin}:
                    continue
                ok_all = True
                for w in sorted(bad):
                    it = V.Interp(facts, cur["tidx"][w], subject_calls=(), subject_adt=cur["adt"])
                    it.forced = {b.id: {x: V.SUBJ}}
                    res = it.run(b)
                    removed = {(p, q) for p, q in C.edges(b) if (p, q) not in res.edges}
                    inloop = C.reachable(b, [some_tgt], removed_edges=removed, removed_blocks={h}) & blocks
                    back = any((p, h) in res.edges for p in inloop)
                    leaks = any(q not in blocks and site_bb in C.reachable(b, [q])
                                for p in inloop for q in b.succs(p) if (p, q) in res.edges)
                    if back or leaks:
                        ok_all = False
                good = good or ok_all
            if not good:
                continue
            early = [(p, q) for p in blocks for q in b.succs(p) if q not in blocks and p != sw
                     and site_bb in C.reachable(b, [q])]
            if early:
                continue
            return True, "elements validated by the loop at bb%d (line %s) before use" % (h, b.term(h).get("l"))
        return False, "no completed validation loop over the same container"

    def field_invariant(name, site_bb, place, bad, depth, seen):
        """receiver is a Type-typed field of a crate-local struct: every construction site of that struct gives
        the field an admissible value"""
        b = facts.bodies[name]
        fl = flow_of(name)
        from ..flow import field_name
        flds = [field_name(p) for p in place[1:] if field_name(p) is not None]
        if len(flds) != 1:
            return False, "projection %s" % place
        fld = flds[0]
        owner = b.local_adt(place[0])
        a = facts.adts.get(owner)
        if a is None or a["kind"] != "struct" or not any(f["name"] == fld and f["ty"] == cur["adt"] for f in a["variants"][0]["fields"]):
            return False, "field `%s` of %s is not a Type field of a crate struct" % (fld, owner)
        key = ("field", owner, fld)
        if key in seen:
            return True, "(recursive)"
        n = 0
        for cname, cb in facts.bodies.items():
            if cb.crate != "ciphercore_base":
                continue
            for bb2, j2, pl, rv in cb.assigns():
                if rv[0] == "agg" and rv[1].get("adt") == owner:
                    n += 1
                    opf = rv[2][rv[1]["fields"].index(fld)]
                    ok2, why2 = reachable_under(cname, bb2, opf, bad, depth + 1, seen + (key,))
                    if not ok2:
                        return False, "%s.%s set in %s: %s" % (owner.split("::")[-1], fld, cname.split("::")[-1], why2)
        if n == 0:
            return False, "no construction site of %s" % owner
        return True, "struct invariant: all %d construction site(s) of %s give `%s` an admissible value" % (
            n, owner.split("::")[-1], fld)

    def reachable_under(name, site_bb, op, bad_variants, depth=0, seen=(), only_caller=None):
        """can block `site_bb` of body `name` execute while the Type value of operand `op` has a variant in
        bad_variants?  returns (ok = it cannot, explanation)"""
        b = facts.bodies[name]
        fl = flow_of(name)
        if depth > 8:
            return False, "analysis depth exceeded"
        if op[0] == "k":
            return False, "constant operand"
        base, fplace = base_local2(fl, b, op)
        if base is None:
            return field_invariant(name, site_bb, fplace, bad_variants, depth, seen)
        vname = b.var_name(base) or "_%d" % base
        key = ("val", name, base)
        if key in seen:
            return True, "(recursive)"
        forced = {l: V.SUBJ for l in forced_locals(fl, b, base)}
        is_param = 1 <= base <= b.argc
        still = set()
        for w in sorted(bad_variants):
            it = V.Interp(facts, cur["tidx"][w], subject_calls=(), subject_adt=cur["adt"])
            it.forced = {b.id: forced}
            res = it.run(b, {base: V.SUBJ} if is_param else None)
            if site_bb in res.blocks:
                still.add(w)
        if not still:
            return True, "unreachable when `%s` is %s (guards on the same value)" % (vname, "/".join(sorted(bad_variants)))
        # a container assembled in this body: its elements are exactly what is stored into it
        stores = fl.stores.get(base, [])
        if stores and not is_param:
            defs_ok = True
            for di in fl.defs_of.get(base, []):
                _, db, dj = fl.defs[di]
                if db >= 0 and dj is None:
                    from ..flow import is_empty_ctor
                    dn = callee_name(b.term(db))
                    if not (is_empty_ctor(dn) and not b.term(db)["args"]):
                        defs_ok = False
                elif db >= 0:
                    defs_ok = False
            if defs_ok:
                n_st = 0
                for (sb, ops) in stores:
                    for o in ops:
                        if o[0] == "k" or not has_type(b.local_ty(o[1][0])):
                            continue
                        n_st += 1
                        ok2, why2 = reachable_under(name, sb, o, set(still), depth + 1, seen + (key,), only_caller=only_caller)
                        if not ok2:
                            return False, "`%s` may contain %s: element stored at line %s: %s" % (
                                vname, "/".join(sorted(still)), b.term(sb).get("l"), why2)
                if n_st:
                    return True, "`%s` is assembled here and every stored element is admissible (%d store(s))" % (vname, n_st)
        # per-producer discharge
        ors = fl.origins(["c", [base]], (site_bb, None))
        why = []
        for o in sorted(ors, key=str):
            if o[0] == "index":
                continue
            if o[0] == "call":
                t = b.term(o[1])
                dty = b.local_ty(t["dest"][0]) if len(t["dest"]) == 1 else ""
                if not has_type(dty):
                    continue  # e.g. the Error payload of an Err(..)
                if o[2] in CTOR_VARIANT and cur["adt"] == TYPE:
                    if CTOR_VARIANT[o[2]] in still:
                        return False, "`%s` may be built by %s" % (vname, o[2].split("::")[-1])
                    why.append(o[2].split("::")[-1])
                    continue
                if o[2] in layer and o[2] != ENTRY:
                    ok2, why2 = ret_admissible(o[2], still, (name, o[1]), depth + 1, seen + (key,))
                    if not ok2:
                        return False, "`%s` may be %s: %s" % (vname, "/".join(sorted(still)), why2)
                    why.append("result of %s" % o[2].split("::")[-1])
                    continue
                okc, whyc = container_validated(name, site_bb, o, still)
                if okc:
                    why.append(whyc)
                    continue
                return False, "`%s` may be %s: it comes from %s, whose result is arbitrary (%s)" % (
                    vname, "/".join(sorted(still)), o[2], whyc)
            if o[0] == "agg":
                if o[3].startswith(cur["adt"] + "::"):
                    if o[3].split("::")[-1] in still:
                        return False, "`%s` may be the literal %s" % (vname, o[3])
                    why.append(o[3].split("::")[-1])
                    continue
                if o[3].startswith(("std::result::Result", "std::option::Option")):
                    continue
                return False, "`%s` derives from an aggregate %s" % (vname, o[3])
            if o[0] == "param" and o[2] == ():
                if o[1] == base:
                    # the parameter itself: lift to the call sites
                    cs = [only_caller] if only_caller else callers.get(name, [])
                    if not cs or ("lift", name, base) in seen:
                        return False, "parameter `%s` of %s may be %s (no guarded caller)" % (vname, name.split("::")[-1], "/".join(sorted(still)))
                    for (cn, cbb) in cs:
                        t = facts.bodies[cn].term(cbb)
                        if base - 1 >= len(t["args"]):
                            return False, "cannot match argument %d at call from %s" % (base - 1, cn)
                        ok2, why2 = reachable_under(cn, cbb, t["args"][base - 1], set(still), depth + 1,
                                                    seen + (key, ("lift", name, base)))
                        if not ok2:
                            return False, "parameter `%s` may be %s; caller %s: %s" % (
                                vname, "/".join(sorted(still)), cn.split("::")[-1], why2)
                    why.append("guarded at %d call site(s)" % len(cs))
                    continue
                okc, whyc = container_validated(name, site_bb, o, still)
                if not okc:
                    return False, "`%s` is an element of parameter _%d and may be %s: %s" % (vname, o[1], "/".join(sorted(still)), whyc)
                why.append(whyc)
                continue
            return False, "`%s` may be %s: producer %s not analysable" % (vname, "/".join(sorted(still)), str(o[:3]))
        return True, "`%s` can only hold admissible variants (%s)" % (vname, "; ".join(sorted(set(why))) or "no Type producer")

    n_sites = 0
    for name in sorted(layer):
        b = facts.bodies[name]
        ordn = {}
        for bb, t in b.calls():
            cn = callee_name(t)
            if cn not in acc or b.is_cleanup(bb):
                continue
            n_sites += 1
            short = cn.split("::")[-1]
            o = ordn.get(short, 0)
            ordn[short] = o + 1
            bad = {v for _, v in tvars} - acc[cn]
            ok, why = reachable_under(name, bb, t["args"][0], bad)
            import re as _re
            if not ok and "parameter `" not in why and _re.search(r"producer \('param', 1, \('[a-z_]+',\)\) not analysable", why):
                # the chain ends in a named field of the worker itself (its type cache) that the engine cannot read, without
                # passing through an unvalidated parameter: not a finding about the code (F8, by contrast, flows from a parameter)
                rep._unjudged("C09.K", "%s|%s#%d" % (name, short, o), "%s(): %s" % (short, why[:300]))
                continue
            rep.ob("C09.K", "%s|%s#%d" % (name, short, o), ok,
                   ("%s: %s" % (short, why)) if ok else
                   "%s() panics for %s; %s -- an ill-typed argument would crash add_node instead of being rejected" % (
                       short, "/".join(sorted(bad)), why), b.loc(bb))
    rep.analysed["partial_accessor_sites_in_slice"] = n_sites
    rep.floor("C09.K", "partial-accessor call sites in the type-inference slice", n_sites, 40)

    # ---------------------------------------------------------------- C09.U: every other panic construct of the slice
    rep.rule("C09.U", "every panic!/unwrap/expect of the type-inference slice is explained structurally: it lies in a function "
                      "that is partial in an enum-typed parameter (it can only panic for some variants - derived) and every "
                      "call site of that function excludes those variants; or it unwraps map.get(k) dominated by "
                      "map.contains_key(k); or it is tabled with a reason.  A new unexplained panic construct is a violation")
    from .C12 import is_panic_construct
    partial = {}   # (function, param) -> (adt, bad variants, blocks executable per good variant)
    for name in sorted(layer):
        b = facts.bodies[name]
        if not C.panic_blocks(b) or name in acc:
            continue
        for k in range(1, b.argc + 1):
            adt = b.local_adt(k)
            a = facts.adts.get(adt) if adt else None
            if a is None or a["kind"] != "enum":
                continue
            vs_ = V.variants(facts, adt)
            bad, good_blocks = set(), []
            for idx, vn in vs_:
                res = V.Interp(facts, idx, subject_calls=(), subject_adt=adt).run(b, {k: V.SUBJ})
                if res.ret == V.BOT:
                    bad.add(vn)
                else:
                    good_blocks.append(res.normal_blocks())
            if bad and len(bad) < len(vs_):
                partial[(name, k)] = (adt, bad, good_blocks)
    rep.tables["partial_functions"] = {"%s(param %d: %s)" % (n.split("::")[-1], k, v[0].split("::")[-1]): sorted(v[1])
                                       for (n, k), v in partial.items()}
    # call sites of partial functions
    for (pf, k), (adt, bad, _) in sorted(partial.items()):
        cur["adt"] = adt
        cur["tidx"] = {n: i for i, n in V.variants(facts, adt)}
        cs = callers.get(pf, [])
        for (cn, cbb) in cs:
            t = facts.bodies[cn].term(cbb)
            ok, why = reachable_under(cn, cbb, t["args"][k - 1], set(bad))
            rep.ob("C09.U", "%s|calls %s(param %d)" % (cn, pf.split("::")[-1], k), ok,
                   "%s: %s" % (pf.split("::")[-1], why) if ok else
                   "%s can only panic when its %s argument is %s; %s" % (pf.split("::")[-1], adt.split("::")[-1],
                                                                          "/".join(sorted(bad)), why),
                   facts.bodies[cn].loc(cbb))
        if not cs:
            rep.ob("C09.U", "%s|no-callers" % pf, pf == ENTRY, "%s has no caller in the slice" % pf)
    cur["adt"] = TYPE
    cur["tidx"] = {n: i for i, n in tvars}
    # inventory
    n_pan = 0
    for name in sorted(layer):
        b = facts.bodies[name]
        if name in acc:
            continue
        fl = flow_of(name)
        ordn = {}
        for bb, t in b.calls():
            kind = is_panic_construct(t)
            if not kind or b.is_cleanup(bb):
                continue
            n_pan += 1
            cnm = (callee_name(t) or "").split("::")[-1]
            o = ordn.get((kind, cnm), 0)
            ordn[(kind, cnm)] = o + 1
            key = "%s|%s:%s#%d" % (name, kind, cnm, o)
            why = None
            for (pf, k), (adt, bad, good_blocks) in partial.items():
                if pf == name and all(bb not in gb for gb in good_blocks):
                    why = "only reachable when parameter %d is %s (call sites checked above)" % (k, "/".join(sorted(bad)))
            if why is None and kind == "unwrap/expect" and t["args"] and t["args"][0][0] != "k":
                why = unwrap_of_checked_get(b, fl, bb, t)
            if why is None:
                tab = PANIC_TABLE.get((name.split("::")[-1], kind, o))
                if tab:
                    why = "tabled: " + tab
            rep.ob("C09.U", key, why is not None, why or
                   "unexplained %s in the type-inference slice: an ill-typed or unusual argument can crash add_node" % kind, b.loc(bb))
    rep.analysed["other_panic_constructs_in_slice"] = n_pan


# ============================================================================ C09.A / C09.E / C09.F
DISPATCHERS = [
    "type_inference::TypeInferenceWorker::process_node",
    "mpc::mpc_compiler::propagate_private_annotations",
    "mpc::mpc_compiler::compile_to_mpc_graph",
    "mpc::resharing::ResharingConfig::compute_graph_resharing",
    "optimizer::meta_operation_optimizer::optimize_graph_meta_operations",
    "evaluators::Evaluator::evaluate_call_iterate",
]
ARITY = "type_inference::get_number_of_node_dependencies"
DEP_PRODUCERS = ("graphs::Node::get_node_dependencies", "type_inference::TypeInferenceWorker::process_node",
                 "custom_ops::ContextMappings::get_node")


def _num(v):
    if v[0] == "enum" and v[3] == "Some" and v[4] and v[4][0][0] == "i":
        return v[4][0][1]
    return None


def is_depvec(b, ors, ga):
    """is this container a per-dependency vector of the node being dispatched on"""
    if not ors:
        return False
    for o in ors:
        if o[0] == "call" and o[2] in DEP_PRODUCERS:
            continue
        if o[0] == "param" and "data_values::Value" in ga and b.var_name(o[1]) in ("dependencies_values",) or \
                (o[0] == "param" and "data_values::Value" in ga and b.impl and "Evaluator" in (b.impl.get("trait") or "") and o[1] == 3):
            continue
        if o[0] == "param" and "data_values::Value" in ga and b.id.endswith("evaluate_call_iterate") and o[1] == 3:
            continue
        return False
    return True


def len_lower_bound(b, fl, site_bb):
    """largest c such that a guard `len(dependency vector) >= c` dominates site_bb (failing edge -> error exit)"""
    best = 0
    for bb in range(b.nblocks()):
        if b.term(bb)["k"] != "switch" or not C.dominates(b, bb, site_bb):
            continue
        src = C.switch_source(b, bb)
        if not src or src["kind"] != "cmp":
            continue
        a_or = fl.origins(src["a"], (src["bb"], src["j"]))
        b_or = fl.origins(src["b"], (src["bb"], src["j"]))

        def is_len(ors):
            for o in ors:
                if o[0] == "call" and o[2].endswith("::len"):
                    t = b.term(o[1])
                    r = fl.origins(t["args"][0], (o[1], None)) if t["args"] else frozenset()
                    ga = (t["f"].get("ga") or [""])[0]
                    return is_depvec(b, r, "data_values::Value" if "Value" in ga else ga)
            return False

        def const(op):
            return int(op[4]) if op[0] == "k" and op[4] is not None else None
        op, neg = src["op"], src["neg"]
        if is_len(a_or) and const(src["b"]) is not None:
            c = const(src["b"])
            # outcome (as tested) under which len >= bound holds
            forms = {"Lt": (False, c), "Ge": (True, c), "Le": (False, c + 1), "Gt": (True, c + 1), "Eq": (True, c), "Ne": (False, c)}
        elif is_len(b_or) and const(src["a"]) is not None:
            c = const(src["a"])
            forms = {"Gt": (False, c), "Le": (True, c), "Ge": (False, c + 1), "Lt": (True, c + 1), "Eq": (True, c), "Ne": (False, c)}
        else:
            continue
        if op not in forms:
            continue
        good_outcome, bound = forms[op]
        if neg:
            good_outcome = not good_outcome
        t = b.term(bb)
        arms = dict(t["arms"])
        tgt_good = arms.get("1", t["else"]) if good_outcome else arms.get("0", t["else"])
        tgt_bad = arms.get("0", t["else"]) if good_outcome else arms.get("1", t["else"])
        if tgt_good == tgt_bad:
            continue
        # the site must only be reachable through the good edge
        if site_bb in C.reachable(b, [0], removed_edges={(bb, tgt_good)}):
            continue
        best = max(best, bound)
    return best


def arity_rules(facts, rep):
    tb = V.predicate_table(facts, ARITY)
    if not rep.anchor("C09.A", ARITY, tb):
        return
    rep.tables["arity"] = {k: V.fmt(v) for k, v in tb.items()}
    vs = V.variants(facts)
    disp = list(DISPATCHERS)
    for n, b in facts.bodies.items():
        if n.endswith("::evaluate_node") and "SimpleEvaluator" in n and b.impl and b.impl.get("trait"):
            disp.append(n)
    total = 0
    for d in disp:
        b = facts.body(d)
        if not rep.anchor("C09.A", d, b):
            continue
        fl = Flow(facts, b, {"::map": [0]})
        sites = []
        for bb, t in b.calls():
            n = callee_name(t) or ""
            if n.endswith("::index") and len(t["args"]) == 2 and t["args"][1][0] == "k" and t["args"][1][4] is not None \
                    and not b.is_cleanup(bb):
                ors = fl.origins(t["args"][0], (bb, None))
                if is_depvec(b, ors, t["f"]["ga"][0]):
                    sites.append((bb, int(t["args"][1][4])))
        short = d.split("::")[-1]
        nchecked = 0
        for idx, name in vs:
            it = V.Interp(facts, idx)
            res = it.run(b)
            n = _num(tb[name])
            for bb, k in sites:
                if bb not in res.blocks:
                    continue
                nchecked += 1
                if n is not None:
                    ok = k < n
                    why = "dependency index %d < arity %d" % (k, n) if ok else \
                        "reads dependency %d but Operation::%s has only %d (index out of range at run time / add time)" % (k, name, n)
                else:
                    lb = len_lower_bound(b, fl, bb)
                    ok = k < lb
                    why = "variable arity: dominated by a length guard len >= %d" % lb if ok else \
                        "Operation::%s has variable arity and dependency %d is read without a dominating length check" % (name, k)
                if not ok or nchecked <= 2:
                    rep.ob("C09.A", "%s|%s|dep[%d]@%d" % (short, name, k, _ord(b, bb)), ok, why, b.loc(bb))
        rep.ob("C09.A", "%s|summary" % short, True,
               "%d constant dependency-index site(s), %d (variant, site) pairs reachable and within arity" % (len(sites), nchecked), b.loc())
        total += nchecked
    rep.floor("C09.A", "(variant, dependency index) pairs checked", total, 100)
    # the arity is checked before dispatch in process_node
    p = facts.body(DISPATCHERS[0])
    if p is not None:
        ar = [bb for bb, t in p.calls() if callee_name(t) == ARITY]
        if rep.anchor("C09.A", "arity check call in process_node", ar):
            fl = Flow(facts, p)
            idxs = [bb for bb, t in p.calls() if (callee_name(t) or "").endswith("::index") and not p.is_cleanup(bb)
                    and is_depvec(p, fl.origins(t["args"][0], (bb, None)), t["f"]["ga"][0])]
            ok = all(C.dominates(p, ar[0], x) for x in idxs)
            rep.ob("C09.A", "process_node|arity-check-first", ok and bool(idxs),
                   "the arity check dominates all %d dependency reads of process_node" % len(idxs), p.loc(ar[0]))
            # a wrong count leads to an error exit: under `len != n` (comparison true) nothing but errors is reachable
            cmp_sw = []
            for bb in range(p.nblocks()):
                if p.term(bb)["k"] == "switch":
                    src = C.switch_source(p, bb)
                    if src and src["kind"] == "cmp" and src["op"] in ("Ne", "Eq"):
                        a_or = fl.origins(src["a"], (src["bb"], src["j"])) | fl.origins(src["b"], (src["bb"], src["j"]))
                        if any(o[0] == "call" and o[1] in ar for o in a_or):
                            cmp_sw.append((bb, src))
            if not cmp_sw and any(callee_name(t_) in facts.bodies and facts.bodies[callee_name(t_)].file == p.file and
                                  any(o_[0] == "call" and o_[1] in ar for a_ in t_["args"] if a_[0] != "k" for o_ in fl.origins(a_, (bb_, None)))
                                  for bb_, t_ in p.calls() if not p.is_cleanup(bb_)):
                rep._unjudged("C09.A", "process_node|arity-compared", "the arity is handed to a helper that compares it; not read by this rule")
            else:
              rep.ob("C09.A", "process_node|arity-compared", bool(cmp_sw),
                   "the dependency count is compared with get_number_of_node_dependencies (%d test(s))" % len(cmp_sw), p.loc())


def _ord(b, bb):
    k = 0
    for x, t in b.calls():
        if x == bb:
            return k
        if (callee_name(t) or "").endswith("::index"):
            k += 1
    return k


def evaluator_total(facts, rep):
    ev = None
    for n, b in facts.bodies.items():
        if n.endswith("::evaluate_node") and "SimpleEvaluator" in n and b.impl and b.impl.get("trait"):
            ev = b
    eg = facts.body("evaluators::Evaluator::evaluate_graph")
    if not (rep.anchor("C09.E", "SimpleEvaluator::evaluate_node", ev) and rep.anchor("C09.E", "Evaluator::evaluate_graph", eg)):
        return
    vs = V.variants(facts)
    only_panic = []
    for idx, name in vs:
        res = V.Interp(facts, idx).run(ev)
        if res.ret == V.BOT:
            only_panic.append(name)
    rep.tables["evaluate_node_only_panics_for"] = only_panic
    for idx, name in vs:
        if name not in only_panic:
            continue
        res = V.Interp(facts, idx).run(eg)
        calls = [c for _, c in res.reachable_calls() if c and c.endswith("::evaluate_node")]
        rep.ob("C09.E", "diverted|%s" % name, not calls,
               "evaluate_node has no non-panicking path for Operation::%s; evaluate_graph %s" % (
                   name, "never passes such a node to it" if not calls else "CAN pass such a node to it (panic at run time)"), eg.loc())
    rep.floor("C09.E", "variants whose evaluator arm only panics", len(only_panic), 3)
    # every variant has an arm: no variant falls to a panicking wildcard unexpectedly
    rep.ob("C09.E", "only-panic-set", set(only_panic) <= {"Input", "Call", "Iterate"},
           "variants for which evaluate_node cannot return: %s (expected only those evaluate_graph handles itself)" % only_panic, ev.loc())


def node_creation(facts, rep):
    n_agg = n_push = 0
    for name, b in facts.bodies.items():
        if b.crate != "ciphercore_base":
            continue
        if b.impl and b.impl.get("trait") and ("Clone" in b.impl["trait"]):
            continue
        for bb, j, place, rv in b.assigns():
            if rv[0] == "agg" and rv[1].get("adt") == "graphs::NodeBody":
                n_agg += 1
                rep.ob("C09.F", "NodeBody-aggregate|%s" % name, name == "graphs::Graph::add_node_internal",
                       "a NodeBody is constructed in %s%s" % (name, "" if name == "graphs::Graph::add_node_internal" else
                       ": nodes must only be created by add_node_internal (dependency checks, id, type inference)"), b.loc(bb))
        for bb, t in b.calls():
            if (callee_name(t) or "").endswith("Vec::<T, A>::push") and t["f"].get("ga") and t["f"]["ga"][0] == "graphs::Node" \
                    and not b.is_cleanup(bb):
                from ..flow import Flow as _F
                fl = _F(facts, b)
                tr = fl.trail(t["args"][0][1]) if t["args"][0][0] != "k" else []
                if tr and tr[-1] == "nodes":
                    n_push += 1
                    rep.ob("C09.F", "nodes-push|%s" % name, name == "graphs::Graph::add_node_internal",
                           "push onto GraphBody.nodes in %s" % name, b.loc(bb))
    rep.floor("C09.F", "NodeBody construction sites", n_agg, 1)
    rep.floor("C09.F", "push onto GraphBody.nodes", n_push, 1)
    an = facts.body("graphs::Graph::add_node")
    if rep.anchor("C09.F", "graphs::Graph::add_node", an):
        calls = [callee_name(t) for _, t in an.calls()]
        rep.ob("C09.F", "add_node->add_node_internal", "graphs::Graph::add_node_internal" in calls,
               "add_node delegates to add_node_internal (type inferred there)", an.loc())
        # add_node passes None as the type
        ok = False
        for bb, t in an.calls():
            if callee_name(t) == "graphs::Graph::add_node_internal":
                fl = Flow(facts, an)
                ors = fl.origins(t["args"][4], (bb, None))
                ok = any(o[0] == "agg" and o[3].endswith("Option::None") for o in ors) and len(ors) == 1
        rep.ob("C09.F", "add_node-infers", ok, "add_node passes no type: the type is inferred (node removed on failure, see C11.R)", an.loc())


def payload_indices(facts, rep):
    """C09.X: indices taken from the operation's parameters (axes, field ids) are range-checked before use"""
    from . import C12
    rep.rule("C09.X", "in the type-inference slice every Vec index whose operand derives from the Operation payload (an axis, a "
                      "field id, a permutation entry) is guarded by a comparison of a payload-derived value against len() of a "
                      "container of the same element type (dominating guard or completed table-level validation loop); "
                      "otherwise an out-of-range parameter panics in add_node instead of being rejected")
    layer = CG.reach(facts, [ENTRY], stop=lambda n: n in facts.bodies and not in_slice_file(facts.bodies[n]))
    layer = {n: v for n, v in layer.items() if in_slice_file(facts.bodies[n])}

    def is_payload(o):
        return o[0] == "call" and o[2] == "graphs::Node::get_operation"
    n = 0
    for name in sorted(layer):
        b = facts.bodies[name]
        idx = [(bb, t) for bb, t in b.calls() if (callee_name(t) or "").endswith(("::index", "::index_mut"))
               and "ops::Index" in (t["f"].get("def") or "") and not b.is_cleanup(bb)]
        if not idx:
            continue
        fl = Flow(facts, b)
        guards = None
        ordn = 0
        for bb, t in idx:
            k = t["args"][1]
            if k[0] == "k":
                continue
            data = sorted(o for o in fl.leaf_deps(k, (bb, None)) if is_payload(o))
            if not data:
                continue
            if guards is None:
                guards = C12.collect_guards(facts, b, fl, datum=is_payload)
                # comparisons may involve arithmetic on the payload: widen the guard's datum set through leaf_deps
                for g in guards:
                    pass
            n += 1
            elem = C12.elem_type(t["f"]["ga"][0]) if t["f"].get("ga") else None
            ok, why = C12.index_guarded(b, fl, bb, data, elem, guards)
            rep.ob("C09.X", "%s|payload-index#%d" % (name, ordn), ok,
                   why if ok else why + " (index derived from the operation's parameters)", b.loc(bb))
            ordn += 1
    rep.floor("C09.X", "payload-derived index sites", n, 5)


PURE_ACCESSORS = ("::get_scalar_type", "::get_shape", "::get_dimensions", "::len", "::is_array", "::is_scalar", "::is_tuple",
                  "::is_vector", "::is_named_tuple", "::get_type", "::get_modulus", "::is_signed", "::size_in_bits",
                  "::clone", "::deref", "::as_ref", "::borrow", "::to_vec", "::as_slice")


def _mutated_later(fl, b, l):
    """is local l (or a copy of it) ever mutably borrowed or partially assigned"""
    key = ("mutated", l)
    if key in b._cache:
        return b._cache[key]
    res = False
    for bb2, j2, place, rv in b.assigns():
        if rv[0] == "ref" and rv[1] == "mut" and fl.root_of(rv[2][0]) == l:
            res = True
        if len(place) > 1 and place[0] == l and place[1] != "*":
            res = True
        if rv[0] == "use" and rv[1][0] == "m" and rv[1][1] == [l] and len(place) == 1:
            # moved into another local (e.g. `let mut tmp = s.clone();` binds the temporary): follow
            if place[0] != l and _mutated_later(fl, b, place[0]):
                res = True
    b._cache[key] = res
    return res


def expr_sig(fl, b, op, depth=0):
    """structural signature of a side-effect-free expression: the same signature = the same value"""
    if op[0] == "k":
        return ("const", op[2])
    place = op[1]
    l = place[0]
    projs = tuple(p for p in place[1:] if p != "*")
    ds = fl.defs_of.get(l, [])
    if 1 <= l <= b.argc or len(ds) != 1 or depth > 12:
        return ("local", l, projs)
    _, bb, j = fl.defs[ds[0]]
    if bb < 0:
        return ("local", l, projs)
    if j is None:
        t = b.term(bb)
        n = callee_name(t) or ""
        d = t["f"].get("def") or ""
        if n.endswith(PURE_ACCESSORS) or d in ("std::clone::Clone::clone", "std::ops::Deref::deref"):
            short = "same" if (n.endswith(("::clone", "::deref", "::as_ref", "::borrow")) or d.startswith("std::clone")) else n
            if short == "same" and (n.endswith("::clone") or d.startswith("std::clone")) and _mutated_later(fl, b, l):
                return ("opaque", bb, projs)  # a clone that is modified afterwards is a different value
            args = tuple(expr_sig(fl, b, a, depth + 1) for a in t["args"])
            if short == "same" and len(args) == 1:
                return args[0] if not projs else ("proj", args[0], projs)
            return ("call", short, args, projs)
        return ("opaque", bb, projs)
    rv = b.stmts(bb)[j][2]
    if rv[0] in ("ref", "raw"):
        inner = expr_sig(fl, b, ["c", rv[2]], depth + 1)
        return inner if not projs else ("proj", inner, projs)
    if rv[0] == "use":
        inner = expr_sig(fl, b, rv[1], depth + 1)
        return inner if not projs else ("proj", inner, projs)
    return ("opaque", bb, j, projs)


def self_comparisons(facts, rep):
    """C09.S: a guard that compares a value with itself is constant - the check it was meant to be is missing"""
    rep.rule("C09.S", "no equality/order test in the type-inference slice compares an expression with itself (same pure accessor chain "
                      "on the same local): such a guard is constant, so the validation it stands for never rejects anything")
    layer = CG.reach(facts, [ENTRY], stop=lambda n: n in facts.bodies and not in_slice_file(facts.bodies[n]))
    layer = {n: v for n, v in layer.items() if in_slice_file(facts.bodies[n])}
    n = 0
    for name in sorted(layer):
        b = facts.bodies[name]
        fl = None
        k = 0
        for bb, t in b.calls():
            d = t["f"].get("def") or ""
            if d not in ("std::cmp::PartialEq::eq", "std::cmp::PartialEq::ne", "std::cmp::PartialOrd::lt", "std::cmp::PartialOrd::le",
                         "std::cmp::PartialOrd::gt", "std::cmp::PartialOrd::ge") or len(t["args"]) != 2 or b.is_cleanup(bb) or t["x"]:
                continue
            fl = fl or Flow(facts, b)
            a, c = expr_sig(fl, b, t["args"][0]), expr_sig(fl, b, t["args"][1])
            n += 1
            same = a == c and a[0] not in ("const", "opaque")
            if same:
                rep.fail("C09.S", "%s|self-comparison#%d" % (name, k),
                         "both sides of this comparison are the same expression (%s): the test is constant" % str(a)[:120], b.loc(bb))
                k += 1
        for bb, j, place, rv in b.assigns():
            if rv[0] == "bin" and rv[1] in ("Eq", "Ne", "Lt", "Le", "Gt", "Ge") and not b.stmts(bb)[j][4]:
                fl = fl or Flow(facts, b)
                a, c = expr_sig(fl, b, rv[2]), expr_sig(fl, b, rv[3])
                n += 1
                if a == c and a[0] not in ("const", "opaque"):
                    rep.fail("C09.S", "%s|self-comparison#%d" % (name, k),
                             "both sides of this comparison are the same expression (%s): the test is constant" % str(a)[:120], b.loc(bb))
                    k += 1
    rep.ob("C09.S", "scan", True, "%d comparisons of the type-inference slice examined" % n)
    rep.floor("C09.S", "comparisons examined", n, 100)


_run_k = run


def output_value_kept(facts, rep):
    """C09.O: the memory-saving step of evaluate_graph never frees the value that is returned at the end"""
    rep.rule("C09.O", "evaluate_graph returns node_values[output].unwrap(): every `values[i] = None` in it (freeing a value whose "
                      "consumers have run) is unreachable when i equals the output node's id - the write is controlled by a "
                      "comparison of the freed index with get_output_node().get_id()")
    ev = [n for n in facts.bodies if n.endswith("Evaluator::evaluate_graph")]
    if not rep.anchor("C09.O", "evaluators::Evaluator::evaluate_graph", ev):
        return
    parent = facts.bodies[ev[0]]
    pfl = Flow(facts, parent)

    def is_output_id(b, fl, op, at):
        for o in fl.origins(op, at):
            if o[0] == "call" and o[2] == "graphs::Node::get_id":
                recv = fl.origins(b.term(o[1])["args"][0], (o[1], None))
                if any(r[0] == "call" and r[2] == "graphs::Graph::get_output_node" for r in recv):
                    return True
            if o[0] == "upvar" and b is not parent:
                site = [(bb, j, rv) for bb, j, place, rv in parent.assigns()
                        if rv[0] == "agg" and rv[1].get("k") == "closure" and rv[1].get("def") == b.id]
                if len(site) == 1 and o[1] < len(site[0][2][2]):
                    if is_output_id(parent, pfl, site[0][2][2][o[1]], (site[0][0], site[0][1])):
                        return True
        return False

    def extra_reference(b):
        """alternative exemption: the consumer counter of the output node is incremented once more (`cnt[output] += k`) before
        the closure that frees values is created, on the counter container that closure captures"""
        if b is parent:
            return False
        site = [(bb, j, rv) for bb, j, place, rv in parent.assigns()
                if rv[0] == "agg" and rv[1].get("k") == "closure" and rv[1].get("def") == b.id]
        if len(site) != 1:
            return False
        sb, sj, srv = site[0]
        captured = set()
        for o_ in srv[2]:
            if o_[0] != "k":
                captured.add(pfl.root_of(o_[1][0]))
        for bb, j, place, rv in parent.assigns():
            if not (len(place) == 2 and place[1] == "*" and rv[0] == "use" and rv[1][0] != "k" and not parent.is_cleanup(bb)):
                continue
            src = rv[1][1]
            if len(src) != 2 or not str(src[1]).startswith("f0"):
                continue
            add = [r2 for b2, j2, p2, r2 in parent.assigns() if p2 == [src[0]] and r2[0] == "bin"]
            if len(add) != 1 or not add[0][1].startswith("Add") or add[0][3][0] != "k" or not (add[0][3][4] or "0").lstrip("-").isdigit() \
                    or int(add[0][3][4]) < 1 or add[0][2][0] == "k" or add[0][2][1] != [place[0], "*"]:
                continue
            for di in pfl.defs_of.get(place[0], []):
                _, db, dj = pfl.defs[di]
                if dj is not None or db < 0:
                    continue
                t = parent.term(db)
                if not (callee_name(t) or "").endswith("::index_mut") or len(t["args"]) != 2:
                    continue
                if not is_output_id(parent, pfl, t["args"][1], (db, None)):
                    continue
                if t["args"][0][0] != "k" and pfl.root_of(t["args"][0][1][0]) in captured and C.dominates(parent, bb, sb):
                    return True
        return False

    n = 0
    for b in [parent] + list(facts.closures_of(parent.id)):
        fl = Flow(facts, b)
        frees = [(bb, j, place) for bb, j, place, rv in b.assigns() if rv[0] == "agg" and rv[1].get("vn") == "None"
                 and b.local_ty(place[0]) == "std::option::Option<data_values::Value>" and len(place) == 1 and not b.is_cleanup(bb)]
        # keep the None values that are stored into an indexed slot
        stores = []
        for bb, j, place in frees:
            for bb2, j2, place2, rv2 in b.assigns():
                if rv2[0] == "use" and rv2[1][0] != "k" and rv2[1][1] == [place[0]] and any(str(p_).startswith("i") for p_ in place2[1:]) \
                        and not b.is_cleanup(bb2):
                    idx = [int(str(p_)[1:]) for p_ in place2[1:] if str(p_).startswith("i") and str(p_)[1:].isdigit()]
                    stores.append((bb, bb2, idx[0] if idx else None))
        cmps = [(bb, j, place[0], rv) for bb, j, place, rv in b.assigns() if rv[0] == "bin" and rv[1] in ("Eq", "Ne") and len(place) == 1]
        for k, (fb, sb, idx) in enumerate(stores):
            n += 1
            ok = False
            for cb, cj, cl, rv in cmps:
                sides = [rv[2], rv[3]]
                outs = [is_output_id(b, fl, o_, (cb, cj)) for o_ in sides]
                if outs[0] == outs[1]:
                    continue
                other = sides[1] if outs[0] else sides[0]
                if idx is not None and not (fl.origins(other, (cb, cj)) & fl.origins(["c", [idx]], (sb, None))):
                    continue
                res = V.executable_under(facts, b, forced={cl: ("b", rv[1] == "Eq")})
                if sb not in res.blocks:
                    ok = True
            if not ok and extra_reference(b):
                ok = True
            rep.ob("C09.O", "%s|free#%d" % (b.id.split("::")[-1] if b is not parent else "evaluate_graph", k), ok,
                   "the slot that is freed is compared with the output node's id and the write is unreachable when they are equal "
                   "(or the output node's consumer counter gets an extra reference before the freeing closure exists)"
                   if ok else
                   "a node value is freed without excluding the output node: when the output node has consumers inside the graph, "
                   "the final node_values[output].unwrap() panics", b.loc(sb))
    rep.analysed["value_freeing_writes_in_evaluate_graph"] = n
    rep.note("C09.O: %d freeing write(s) found in evaluate_graph (0 would mean values are never freed: nothing to show)" % n)


def rejected_node_is_removed(facts, rep):
    """C09.R = C11.R: 'an operation whose arguments do not fit is rejected when the node is added' includes that the rejected
    node leaves nothing behind - in particular no cached type that the next node with the same id would inherit"""
    from . import C11
    from .C06 import _Sub
    sub = _Sub(rep, "C09")
    sub.rule("C11.R", "a node rejected by add_node_internal (type error, size limits) is removed completely: every error exit after "
                      "the push passes through remove_last_node, which also drops the node's cached type (shared with C11.R); a stale "
                      "cache entry would give the next node with this id the rejected node's type")
    flows = {}

    def flow_of(name):
        if name not in flows:
            flows[name] = Flow(facts, facts.bodies[name])
        return flows[name]
    C11.rollback(facts, sub, flow_of)


def run(facts, rep, tier):
    _run_k(facts, rep, tier)
    output_value_kept(facts, rep)
    rejected_node_is_removed(facts, rep)
    payload_indices(facts, rep)
    self_comparisons(facts, rep)
    arity_rules(facts, rep)
    evaluator_total(facts, rep)
    node_creation(facts, rep)
