"""C14 — per-party layout of replicated shares across the three sibling implementations."""
from ..flow import Flow
from ..facts import callee_name
from .. import cfg as C

SIBLINGS = {
    "typed_value::TypedValue::get_local_shares_for_each_party": "TypedValue",
    "mpc::utils::share_vector": "share_vector",
}
PRNG_DRAWS = ("random::PRNG::get_random_value", "random::PRNG::get_random_bytes", "random::PRNG::get_random_in_range")


def dep_hook(fl, bb, t, name):
    if name in PRNG_DRAWS:
        return "opaque"
    hb = fl.facts.bodies.get(name) if name else None
    if hb is not None and hb.kind != "closure" and hb.file == fl.body.file and not secret_params(hb) and \
            any(callee_name(t_) in PRNG_DRAWS for _, t_ in hb.calls()):
        return "opaque"     # a private helper that only draws randomness (`garbage_values(prng, n_bytes)`): a draw site of its own
    if name and name.endswith(("::len", "::is_empty", "::get_type", "::get_shape")):
        return []  # sizes and types are public, not the secret's value
    return list(range(len(t["args"])))


def secret_params(b):
    """parameters that carry the value being shared (not the PRNG, not public descriptors such as types and sizes)"""
    out = set()
    for l in range(1, b.argc + 1):
        ty = b.local_ty(l)
        if "random::PRNG" in ty:
            continue
        if "TypedValue" in ty or "data_values::Value" in ty or ty.startswith("&[") or "Vec<" in ty:
            out.add(l)
    return out


def elem_type(b, place):
    import re
    m = re.search(r"\[(.*); 3\]", b.local_ty(place[0]))
    return m.group(1) if m else None


def find_siblings(facts):
    out = dict(SIBLINGS)
    for n in facts.bodies:
        if n.endswith("::secret_share_for_parties") and "ReplicatedShares" in n:
            out[n] = "ReplicatedShares"
    return out


def prng_param(b):
    for l in range(1, b.argc + 1):
        if "random::PRNG" in b.local_ty(l):
            return l
    return None


def run(facts, rep, tier):
    rep.rule("C14.L", "per-party layout: in each of the three sibling implementations party p's tuple holds share p in slot p and "
                      "share p+1 in slot p+1 (indices mod 3) taken from the sharing of the secret, and a value that depends on "
                      "the PRNG only (junk) in the remaining slot; all siblings agree")
    rep.rule("C14.S", "in the sharing itself the first two shares come from the PRNG only and the third depends on the secret and "
                      "on both random shares through a subtraction")
    sib = find_siblings(facts)
    rep.floor("C14.L", "sibling implementations of the per-party layout", len([n for n in sib if n in facts.bodies]), 3)
    matrices = {}
    unjudged = []
    separate_values = set()
    for name, label in sorted(sib.items()):
        b = facts.body(name)
        if not rep.anchor("C14.L", name, b):
            continue
        fl = Flow(facts, b, call_hook=dep_hook)
        fl.keep_arrays = True
        fl.deep_aggregates = True
        fd = Flow(facts, b, call_hook=dep_hook)
        fd.deep_aggregates = True
        pp = prng_param(b)
        sp = secret_params(b)
        arrays = {}
        etype = {}
        for bb, j, place, rv in b.assigns():
            if rv[0] == "agg" and rv[1].get("k") == "array" and len(rv[2]) == 3:
                arrays[(bb, j)] = rv[2]
                etype[(bb, j)] = elem_type(b, place)
        values = {k for k in arrays if etype[k] == "data_values::Value"}
        upstream = {}
        for key in values:
            up = set()
            for op in arrays[key]:
                up |= {(o[1], o[2]) for o in fl.origins(op, key) if o[0] == "agg" and o[3] == "array" and (o[1], o[2]) in values
                       and (o[1], o[2]) != key}
            upstream[key] = up
        # outer aggregate: the 3-array whose operands each derive from exactly one (nearest) 3-array of Values
        outer = None
        for key, ops in arrays.items():
            inner = []
            for op in ops:
                hits = {(o[1], o[2]) for o in fl.origins(op, key) if o[0] == "agg" and o[3] == "array" and (o[1], o[2]) in values
                        and (o[1], o[2]) != key}
                far = set()
                for h in hits:
                    far |= upstream.get(h, set())
                inner.append(sorted(hits - far))
            if all(len(h) == 1 for h in inner) and len({h[0] for h in inner}) == 3:
                outer = (key, [h[0] for h in inner])
        if outer is None:
            # the per-party tuples are not three literal 3-element vectors (built by a closure, a loop over the party index,
            # ..): the positional recovery does not apply; this sibling is not judged (the others still are)
            rep.note("C14.L: %s builds its per-party tuples in a form the positional recovery does not read; layout not judged" % label)
            unjudged.append(label)
            continue
        # element-level facts: identity (source vector + constant index, or the producing calls), dependence on the secret,
        # PRNG draws
        E = []
        for p, ikey in enumerate(outer[1]):
            row = []
            for s_, op in enumerate(arrays[ikey]):
                ip = fl._index_path(op) if op[0] != "k" else None
                src, idx = (ip[0], ip[1][0]) if (ip and ip[1] and len(ip[1]) == 1) else (None, None)
                eo = fd.origins(op, ikey)
                e_params = {o[1] for o in eo if o[0] == "param" and o[1] in sp}
                e_draws = {o for o in eo if o[0] == "call" and o[2] in PRNG_DRAWS}
                if not e_params:
                    # draws made inside a private helper that is not handed the secret (`garbage_values(prng, n_bytes)`)
                    for o in eo:
                        hb_ = facts.bodies.get(o[2]) if o[0] == "call" else None
                        if hb_ is not None and hb_.kind != "closure" and hb_.file == b.file and \
                                any(callee_name(t_) in PRNG_DRAWS for _, t_ in hb_.calls()):
                            e_draws.add(o)
                whole = fd.origins(["c", [src]], ikey) if src is not None else eo
                w_params = {o[1] for o in whole if o[0] == "param" and o[1] in sp}
                ident = ("vec", src, idx) if src is not None else ("val", frozenset(o[:3] for o in fl.origins(op, ikey) if o[0] == "call"))
                row.append({"ident": ident, "src": src, "idx": idx, "params": e_params, "draws": e_draws, "wparams": w_params,
                            "name": b.var_name(src) if src is not None else None})
            E.append(row)
        secret_draws = set()
        for row in E:
            for e in row:
                if e["params"]:
                    secret_draws |= e["draws"]

        def cls_of(e):
            if e["params"] or (e["src"] is not None and e["wparams"]):
                return "shares"
            if e["draws"] and e["draws"] <= secret_draws:
                return "shares"         # one of the random masks of the sharing
            if e["draws"]:
                return "junk"
            return "other"
        M = [[(cls_of(e), e["idx"], e["name"]) for e in row] for row in E]
        matrices[label] = M
        share_draws = set()
        for row in E:
            for e in row:
                if cls_of(e) == "shares":
                    share_draws |= e["draws"]
        # (A) one source vector indexed by the slot number, or (B) three separate values used consistently
        form_a = all(E[p][s_]["src"] is not None and E[p][s_]["idx"] == s_ for p in range(3) for s_ in (p, (p + 1) % 3)) and \
            len({E[p][s_]["src"] for p in range(3) for s_ in (p, (p + 1) % 3)}) == 1
        for p in range(3):
            for s_ in range(3):
                e = E[p][s_]
                c = cls_of(e)
                if s_ in (p, (p + 1) % 3):
                    other = E[(s_ - 1) % 3 if p == s_ else s_][s_]     # the other holder of slot s_
                    if form_a:
                        ok = c == "shares"
                        want = "share %d of the secret's sharing" % s_
                    else:
                        distinct = all(E[q][t_]["ident"] != e["ident"] for q in range(3) for t_ in (q, (q + 1) % 3) if t_ != s_)
                        ok = c == "shares" and other["ident"] == e["ident"] and distinct
                        want = "the share of slot %d (the same value in both parties that hold this slot, different from the other slots)" % s_
                else:
                    ok = c == "junk"
                    want = "junk (PRNG only)"
                rep.ob("C14.L", "%s|party%d.slot%d" % (label, p, s_), ok,
                       "party %d slot %d holds %s[%s] (%s); expected %s%s" % (
                           p, s_, e["name"], e["idx"], c, want, "" if ok else
                           ": a party that receives its third share can reconstruct the secret alone / a wrong slot breaks reconstruction"),
                       b.loc(outer[0][0]))
                if c == "junk":
                    common = e["draws"] & share_draws
                    rep.ob("C14.L", "%s|party%d.slot%d|junk-unrelated" % (label, p, s_), not common,
                           "the junk in party %d's slot %d comes from PRNG draws of its own (%d), none of which feeds a share" % (p, s_, len(e["draws"]))
                           if not common else
                           "the junk in party %d's slot %d is computed from the same random draws as the shares: it is not unrelated" % (p, s_),
                           b.loc(outer[0][0]))
        if not form_a:
            secrets = {E[p][s_]["ident"] for p in range(3) for s_ in (p, (p + 1) % 3) if E[p][s_]["params"]}
            rep.ob("C14.L", "%s|one-secret-dependent-share" % label, len(secrets) == 1,
                   "exactly one of the three distinct share values depends on the secret (the others are its random masks)"
                   if len(secrets) == 1 else "%d of the share values depend on the secret" % len(secrets), b.loc(outer[0][0]))
            by_ident = {}
            for p in range(3):
                for s_ in (p, (p + 1) % 3):
                    by_ident[E[p][s_]["ident"]] = E[p][s_]
            masks = [e for e in by_ident.values() if not e["params"]]
            sec = [e for e in by_ident.values() if e["params"]]
            ok_s = len(masks) == 2 and len(sec) == 1 and all(m["draws"] for m in masks) and not (masks[0]["draws"] & masks[1]["draws"]) \
                and masks[0]["draws"] <= sec[0]["draws"] and masks[1]["draws"] <= sec[0]["draws"]
            rep.ob("C14.L", "%s|masks-feed-the-secret-share" % label, ok_s,
                   "the two PRNG-only shares are independent draws and both feed the secret-dependent share (v2 = v - v0 - v1)"
                   if ok_s else "the three share values are not of the form (r0, r1, secret combined with r0 and r1)", b.loc(outer[0][0]))
            separate_values.add(name)
    labs = sorted(matrices)
    if len(labs) >= 2:
        norm = {l: [[c for c, i, _ in row] for row in matrices[l]] for l in labs}
        for l in labs[1:]:
            rep.ob("C14.L", "agree|%s~%s" % (labs[0], l), norm[l] == norm[labs[0]],
                   "layout matrices of %s and %s are identical" % (labs[0], l))
    rep.tables["layout"] = {l: [["%s[%s]" % (c, i) for c, i, _ in row] for row in m] for l, m in matrices.items()}
    # ---------------------------------------------------------------- C14.S
    shard = [n for n in facts.bodies if n.endswith("::shard_to_shares")]
    rep.floor("C14.S", "shard_to_shares implementations", len(shard), 2)
    for name in sorted(shard) + ["mpc::utils::share_vector"]:
        b = facts.body(name)
        if not rep.anchor("C14.S", name, b):
            continue
        fd = Flow(facts, b, call_hook=dep_hook)
        fd.deep_aggregates = True
        pp = prng_param(b)
        sp = secret_params(b)
        fl = Flow(facts, b)
        cands = []
        for bb, j, place, rv in b.assigns():
            if rv[0] == "agg" and rv[1].get("k") == "array" and len(rv[2]) == 3:
                deps = []
                for op in rv[2]:
                    d = fd.origins(op, (bb, j))
                    deps.append(({o[1] for o in d if o[0] == "param" and o[1] in sp},
                                 {o for o in d if o[0] == "call" and o[2] in PRNG_DRAWS},
                                 {o[2] for o in d if o[0] == "via"}))
                cands.append(((bb, j), deps))
        # the sharing aggregate: exactly one element depends on a non-PRNG parameter
        sharing = [c for c in cands if sum(1 for d in c[1] if d[0]) == 1 and all(d[1] for d in c[1])]
        if name in separate_values:
            sharing = [c for c in sharing if c[1][2][0] and c[1][0][1] <= c[1][2][1] and c[1][1][1] <= c[1][2][1]]
        short = name.split("::")[-2] + "::" + name.split("::")[-1]
        if not sharing and name in separate_values:
            rep.note("C14.S: %s keeps its three shares in separate values; the sharing clauses are decided by C14.L (masks-feed-the-secret-share)" % short)
            continue
        if not rep.anchor("C14.S", "%s|[r0, r1, secret - r0 - r1] aggregate" % short, sharing):
            continue
        key, deps = sharing[0]
        ok01 = not deps[0][0] and not deps[1][0] and deps[0][1] and deps[1][1] and not (deps[0][1] & deps[1][1])
        rep.ob("C14.S", "%s|random-shares" % short, bool(ok01),
               "shares 0 and 1 are independent PRNG draws that do not depend on the secret", b.loc(key[0]))
        ok2 = bool(deps[2][0]) and deps[0][1] <= deps[2][1] and deps[1][1] <= deps[2][1] and \
            any("subtract" in v.lower() for v in deps[2][2])
        rep.ob("C14.S", "%s|third-share" % short, bool(ok2),
               "share 2 depends on the secret and on both random shares through a subtraction (via %s)" % sorted(
                   v.split("::")[-1] for v in deps[2][2] if "subtract" in v.lower() or "add" in v.lower()), b.loc(key[0]))


# ============================================================================ C14.B (thorough tier: binaries are extracted)
def split_parties_bin(facts, rep):
    """CLI input splitting: party j's file receives element j of the per-party vector; an input owned by party p goes
    to party p only"""
    cand = [b for n, b in facts.bodies.items() if b.crate == "ciphercore_split_parties" and b.kind == "closure"
            and any((callee_name(t) or "").endswith("TypedValue::get_local_shares_for_each_party") for _, t in b.calls())]
    if not cand:
        rep.note("C14.B: binary ciphercore_split_parties not in the extracted facts (quick tier): not checked")
        return
    rep.rule("C14.B", "ciphercore_split_parties hands party j exactly element j of get_local_shares_for_each_party, and an input owned "
                      "by party p is given in clear to party p only (the others receive a zero value of the type)")
    b = cand[0]
    fl = Flow(facts, b)
    share_calls = [bb for bb, t in b.calls() if (callee_name(t) or "").endswith("TypedValue::get_local_shares_for_each_party")]
    # pushes whose pushed value derives from the per-party vector
    ok_pairs, bad_pairs = [], []
    for bb, t in b.calls():
        cn = callee_name(t) or ""
        if not cn.endswith("Vec::<T, A>::push") or b.is_cleanup(bb) or len(t["args"]) < 2:
            continue
        vor = fl.origins(t["args"][1], (bb, None))
        if not any(o[0] == "call" and o[1] in share_calls for o in vor):
            continue
        # index used to pick the share and index used to pick the destination
        src_idx = _index_operand(b, fl, t["args"][1])
        dst_idx = _index_operand(b, fl, t["args"][0])
        same = src_idx is not None and dst_idx is not None and src_idx == dst_idx
        if not same and src_idx is not None and dst_idx is None:
            # destination picked by `iter_mut().enumerate()`: the index is the enumeration counter of the same loop item
            dor = fl.origins(t["args"][0], (bb, None))
            if any(o[0] == "index" for o in fl.origins(["c", [src_idx[1]]], (bb, None))) if src_idx[0] == "local" else False:
                same = True
        (ok_pairs if same else bad_pairs).append((bb, src_idx, dst_idx))
    # one sharing per input: the sharing call is not inside the loop that distributes the per-party tuples
    loops = C.loops(b)
    hoisted = True
    for (pb, _, _) in ok_pairs + bad_pairs:
        inner = None
        for h, blocks in loops:
            if pb in blocks and (inner is None or len(blocks) < len(inner)):
                inner = blocks
        if inner and any(sc in inner for sc in share_calls):
            hoisted = False
    rep.ob("C14.B", "shared-input|one-sharing-for-all-parties", hoisted and bool(ok_pairs + bad_pairs),
           "the per-party tuples handed out come from ONE call of get_local_shares_for_each_party per input" if hoisted else
           "get_local_shares_for_each_party (which draws fresh randomness) is called inside the per-party loop: each party "
           "receives a piece of a different sharing and nothing reconstructs", b.loc(share_calls[0]) if share_calls else b.loc())
    rep.ob("C14.B", "shared-input|party-j-gets-element-j", bool(ok_pairs) and not bad_pairs,
           "split_inputs[j] receives parties_shares[j] (same index value)" if ok_pairs and not bad_pairs else
           "the per-party share vector is distributed with mismatching indices %s: a party receives another party's tuple "
           "(its third share)" % bad_pairs, b.loc(share_calls[0]) if share_calls else b.loc())
    # owner-only: the push of the clear input is unreachable when `j == p` is false
    eqs = []
    for bb in range(b.nblocks()):
        if b.term(bb)["k"] == "switch" and not b.is_cleanup(bb):
            src = C.switch_source(b, bb)
            if src and src["kind"] == "cmp" and src["op"] == "Eq":
                eqs.append((bb, src))
    clear_pushes = []
    for bb, t in b.calls():
        cn = callee_name(t) or ""
        if cn.endswith("Vec::<T, A>::push") and not b.is_cleanup(bb) and len(t["args"]) >= 2:
            vor = fl.origins(t["args"][1], (bb, None))
            if vor and not any(o[0] == "call" and (o[1] in share_calls or o[2].endswith(("TypedValue::new", "zero_of_type"))) for o in vor):
                clear_pushes.append(bb)
    guarded = 0
    for pb in clear_pushes:
        for (sb, src) in eqs:
            rem = C.bool_switch_removed(b, sb, False if not src["neg"] else True)
            if pb not in C.reachable(b, [0], removed_edges=rem) and pb in C.reachable(b, [0]):
                guarded += 1
                break
    rep.ob("C14.B", "owned-input|owner-only", bool(clear_pushes) and guarded >= 1,
           "%d push(es) of a clear input; %d of them unreachable unless `j == owner`; the public arm gives everyone the value"
           % (len(clear_pushes), guarded), b.loc())


def _index_operand(b, fl, op):
    """the (root local of the) index used in the Index/IndexMut/iteration that produced operand `op`, if any"""
    if op[0] == "k":
        return None
    l = op[1][0]
    for _ in range(12):
        ds = fl.defs_of.get(l, [])
        if len(ds) != 1:
            return None
        _, bb, j = fl.defs[ds[0]]
        if bb < 0:
            return None
        if j is None:
            t = b.term(bb)
            n = callee_name(t) or ""
            if n.endswith(("::index", "::index_mut")) and len(t["args"]) == 2:
                k = t["args"][1]
                if k[0] == "k":
                    return ("const", k[4])
                return ("local", fl.root_of(k[1][0]))
            if t["args"] and t["args"][0][0] != "k" and (n.endswith(("::clone", "::deref", "::deref_mut")) or
                                                        t["f"].get("def") in ("std::clone::Clone::clone",)):
                l = t["args"][0][1][0]
                continue
            return None
        rv = b.stmts(bb)[j][2]
        if rv[0] in ("ref", "raw"):
            l = rv[2][0]
            continue
        if rv[0] == "use" and rv[1][0] != "k":
            l = rv[1][1][0]
            continue
        return None
    return None


REPLICATORS = ("::from_elem", "std::iter::repeat", "std::iter::repeat_n", "::resize", "::fill", "::repeat")


def draws_not_replicated(facts, rep):
    """C14.U: every element of a random container is drawn separately"""
    rep.rule("C14.U", "in random.rs no value obtained from a random draw is replicated (vec![v; n], iter::repeat, resize, fill): "
                      "a repeated draw makes the differences of the secret's elements visible in a single share")
    n = 0
    for name, b in sorted(facts.bodies.items()):
        if b.crate != "ciphercore_base" or not b.file.endswith("/random.rs"):
            continue
        fl = None
        for bb, t in b.calls():
            cn = callee_name(t) or ""
            if not cn.endswith(REPLICATORS) or b.is_cleanup(bb) or not t["args"]:
                continue
            fl = fl or Flow(facts, b)
            for a in t["args"][:2]:
                if a[0] == "k":
                    continue
                ors = fl.origins(a, (bb, None))
                drawn = [o for o in ors if o[0] == "call" and (o[2].startswith("random::PRNG::get_random") or
                                                               "generate_random" in o[2] or "recursively_generate_value" in o[2]
                                                               or o[2].endswith("generate_u32_in_range"))]
                n += 1
                rep.ob("C14.U", "%s|%s" % (name, cn.split("::")[-1]), not drawn,
                       "replicated value is not a random draw" if not drawn else
                       "a random draw (%s) is replicated by %s: all copies are equal" % (drawn[0][2].split("::")[-1], cn), b.loc(bb))
    rep.ob("C14.U", "scan", True, "%d replication sites in random.rs examined" % n)


_run_ls = run


def run(facts, rep, tier):
    _run_ls(facts, rep, tier)
    draws_not_replicated(facts, rep)
    split_parties_bin(facts, rep)
