"""C02 — each party can run the protocol from its own data (structural necessary conditions).
Also used by C19 with the instances restricted to mpc/mpc_psi.rs."""
from ..flow import Flow
from ..facts import callee_name
from .. import cfg as C
from .. import vcai as V

EXTRA = {"graphs::Node::add_annotation": [0], "graphs::Node::set_name": [0], "graphs::Node::set_as_output": [0]}
NOPS = ("graphs::Node::nop", "graphs::Graph::nop")
SOURCES = ("mpc::mpc_compiler::get_zero_shares", "mpc::mpc_compiler::get_node_shares")
# bodies that *define* the 3-out-of-3 zero sharing (their results are the sources)
SOURCE_DEFINERS = ("mpc::mpc_compiler::get_zero_shares", "mpc::mpc_compiler::get_node_shares",
                   "mpc::mpc_compiler::recursively_generate_node_shares")
# NOP without Send: function -> (max count, reason)
NOP_EXCEPTIONS = {
    "mpc::mpc_compiler::reveal_output": (1, "trailing NOP after forwarding the revealed value: the output node must not carry a Send annotation"),
}
SEND = "graphs::NodeAnnotation::Send"


def has_node(ty):
    return "graphs::Node" in ty


def send_sites(facts, b, fl):
    """list of (bb, receiver origins, sender operand, receiver-party operand, agg point)"""
    out = []
    for bb, t in b.calls():
        if callee_name(t) != "graphs::Node::add_annotation" or b.is_cleanup(bb):
            continue
        ann = fl.origins(t["args"][1], (bb, None))
        aggs = [o for o in ann if o[0] == "agg" and o[3] == SEND]
        if not aggs:
            continue
        recv = fl.origins(t["args"][0], (bb, None))
        out.append((bb, recv, aggs))
    return out


def send_wrappers(facts):
    """helpers whose returned node is always a nop() that carries a Send (wrapper summarisation):
    a value passed through them has been sent"""
    out = set()
    for name, b in mpc_bodies(facts):
        if not has_node(b.local_ty(0)):
            continue        # (local closures such as `|v, from, to| v.nop()?.add_annotation(Send(from, to))` are wrappers too)
        nops = [bb for bb, t in b.calls() if callee_name(t) in NOPS and not b.is_cleanup(bb)]
        if not nops:
            continue
        fl = Flow(facts, b, EXTRA)
        sent = set()
        for bb, recv, aggs in send_sites(facts, b, fl):
            for o in recv:
                if o[0] == "call" and o[2] in NOPS:
                    sent.add(o[1])
        rets = C.return_blocks(b)
        ok = bool(rets)
        for r in rets:
            ors = fl.origins([0], (r, None))
            ors = {o for o in ors if not (o[0] == "call" and "from_residual" in o[2])}
            if not ors or not all(o[0] == "call" and o[2] in NOPS and o[1] in sent for o in ors):
                ok = False
        if ok:
            out.add(name)
    return out


_NOPW = {}
_ANNH = {}


def transfers(facts, name, fl=None):
    """the transfer points of a body: nop()-like calls whose result receives a Send annotation, either in this body or in
    an annotating helper it is passed to.  Returns {nop block: payload operand}"""
    b = facts.bodies[name]
    fl = fl or Flow(facts, b, EXTRA)
    nopw = nop_wrappers(facts)
    annh = annotating_helpers(facts)
    nop_like = set(NOPS) | set(nopw)
    sent = set()
    for bb, recv, aggs in send_sites(facts, b, fl):
        for o in recv:
            if o[0] == "call" and o[2] in nop_like:
                sent.add(o[1])
    for bb, t in b.calls():
        cn = callee_name(t)
        if cn in annh and not b.is_cleanup(bb):
            for k in annh[cn]:
                if k - 1 < len(t["args"]):
                    for o in fl.origins(t["args"][k - 1], (bb, None)):
                        if o[0] == "call" and o[2] in nop_like:
                            sent.add(o[1])
    out = {}
    for nb in sent:
        t = b.term(nb)
        pay = None
        for a in reversed(t["args"]):
            if a[0] != "k" and b.local_ty(a[1][0]) in ("graphs::Node", "&graphs::Node"):
                pay = a
                break
        out[nb] = pay
    return out


def nop_wrappers(facts):
    """helpers that return an un-sent nop() to their caller: name -> set of nop blocks that are returned"""
    if id(facts) in _NOPW:
        return _NOPW[id(facts)]
    out = {}
    for name, b in mpc_bodies(facts):
        if b.kind == "closure" or not has_node(b.local_ty(0)) or name in NOP_EXCEPTIONS:
            continue
        nops = [bb for bb, t in b.calls() if callee_name(t) in NOPS and not b.is_cleanup(bb)]
        if not nops:
            continue
        fl = Flow(facts, b, EXTRA)
        sent = set()
        for bb, recv, aggs in send_sites(facts, b, fl):
            for o in recv:
                if o[0] == "call":
                    sent.add(o[1])
        rets = C.return_blocks(b)
        returned = set()
        ok = bool(rets)
        for r in rets:
            ors = {o for o in fl.origins([0], (r, None)) if not (o[0] == "call" and "from_residual" in o[2])}
            ors = {o for o in ors if not (o[0] == "call" and o[2].endswith("Error::new"))}
            if not ors or not all(o[0] == "call" and o[2] in NOPS and o[1] not in sent for o in ors):
                ok = False
            returned |= {o[1] for o in ors if o[0] == "call"}
        if ok and returned:
            out[name] = returned
    _NOPW[id(facts)] = out
    return out


def annotating_helpers(facts):
    """helpers that put a Send annotation on a node received as parameter: name -> set of parameter indices"""
    if id(facts) in _ANNH:
        return _ANNH[id(facts)]
    out = {}
    for name, b in mpc_bodies(facts):
        if not any(callee_name(t) == "graphs::Node::add_annotation" for _, t in b.calls()):
            continue
        fl = Flow(facts, b, EXTRA)
        for bb, recv, aggs in send_sites(facts, b, fl):
            for o in recv:
                if o[0] == "param" and o[2] == ():
                    out.setdefault(name, set()).add(o[1])
    _ANNH[id(facts)] = out
    return out


def mpc_bodies(facts, file_filter=None):
    for n, b in sorted(facts.bodies.items()):
        if b.crate != "ciphercore_base":
            continue
        if "/mpc/" not in b.file and "/optimizer/" not in b.file:
            continue
        if b.file.endswith("mpc_equivalence_class.rs"):
            continue
        if file_filter and not b.file.endswith(file_filter):
            continue
        yield n, b


def run(facts, rep, tier, file_filter=None, pid="C02"):
    P = pid
    rep.rule(P + ".S", "a Send annotation is only ever put on a node produced by nop(): for every add_annotation(Send(..)) the "
                       "receiver's producer set is a subset of {Node::nop, Graph::nop} (a Send on a computing node is ignored by "
                       "every consumer, so the value never crosses)")
    rep.rule(P + ".N", "every nop() created by protocol code receives a Send annotation (a NOP without Send transfers nothing); "
                       "exceptions are tabled with a reason")
    rep.rule(P + ".Z", "elements of a 3-out-of-3 zero sharing (get_zero_shares / get_node_shares) never reach a function's "
                       "returned node except through a nop() that carries a Send: share i is computable by party i only")
    n_send = n_nop = n_src = 0
    senders = send_wrappers(facts)
    rep.tables["send_wrappers"] = sorted(senders)
    nopw = nop_wrappers(facts)
    rep.tables["nop_wrappers"] = sorted(nopw)
    nop_like = set(NOPS) | set(nopw)
    callers = {}
    for cname, cb in mpc_bodies(facts):
        for cbb, ct in cb.calls():
            cn_ = callee_name(ct)
            if cn_ in facts.bodies and not cb.is_cleanup(cbb):
                callers.setdefault(cn_, []).append((cname, cbb))
    for name, b in mpc_bodies(facts, file_filter):
        calls = list(b.calls())
        has_ann = any(callee_name(t) == "graphs::Node::add_annotation" for _, t in calls)
        nops = [bb for bb, t in calls if callee_name(t) in nop_like and not b.is_cleanup(bb)]
        srcs = [bb for bb, t in calls if callee_name(t) in SOURCES and not b.is_cleanup(bb)]
        if not (has_ann or nops or srcs):
            continue
        fl = Flow(facts, b, EXTRA)
        sites = send_sites(facts, b, fl)
        sent = set()
        ordn = 0
        for bb, recv, aggs in sites:
            n_send += 1
            prod = sorted(set(o[2] if o[0] == "call" else o[0] for o in recv))
            ok = bool(recv) and all(o[0] == "call" and o[2] in nop_like for o in recv)
            for o in recv:
                if o[0] == "call" and o[2] in nop_like:
                    sent.add(o[1])
            if not ok and recv and all((o[0] == "call" and o[2] in nop_like) or (o[0] == "param" and o[2] == ()) for o in recv):
                # the node to annotate is handed in by the caller: the obligation moves to every call site
                ok = True
                for o in recv:
                    if o[0] != "param":
                        continue
                    cs = callers.get(name, [])
                    if not cs:
                        ok = False
                        prod.append("parameter _%d of a function without callers" % o[1])
                    for (cname, cbb) in cs:
                        cb = facts.bodies[cname]
                        cfl = Flow(facts, cb, EXTRA)
                        ct = cb.term(cbb)
                        if o[1] - 1 >= len(ct["args"]):
                            ok = False
                            continue
                        aor = cfl.origins(ct["args"][o[1] - 1], (cbb, None))
                        if not aor or not all(x[0] == "call" and x[2] in nop_like for x in aor):
                            ok = False
                            prod.append("argument at %s: %s" % (cb.loc(cbb), sorted(set(x[2] if x[0] == "call" else x[0] for x in aor))))
            rep.ob(P + ".S", "%s|send#%d" % (name, ordn), ok,
                   "Send annotation on a node produced by %s%s" % (prod, "" if ok else
                   ": only a NOP transfers a value; annotating a computing node sends nothing"), b.loc(bb))
            ordn += 1
        # ---- N
        unsent = [bb for bb in nops if bb not in sent]
        if name in nopw:
            # this helper hands an un-sent NOP to its caller, where the call counts as a nop() producer
            unsent = [bb for bb in unsent if bb not in nopw[name]]
        # a nop passed on to an annotating helper (parameter-receiver case above) is sent there
        passed = set()
        for bb2, t2 in calls:
            cn2 = callee_name(t2)
            if cn2 in facts.bodies and cn2 in annotating_helpers(facts):
                for k2 in annotating_helpers(facts)[cn2]:
                    if k2 - 1 < len(t2["args"]):
                        for o2 in fl.origins(t2["args"][k2 - 1], (bb2, None)):
                            if o2[0] == "call":
                                passed.add(o2[1])
        unsent = [bb for bb in unsent if bb not in passed]
        allow, why = NOP_EXCEPTIONS.get(name, (0, ""))
        if not allow and b.kind != "closure":
            # the tabled exception follows the code when it is moved into a helper that only the excepted function calls
            exc_callers = {(cb_.root or n_) for n_, cb_ in mpc_bodies(facts) for _, t_ in cb_.calls() if callee_name(t_) == name}
            if exc_callers and all(c_ in NOP_EXCEPTIONS for c_ in exc_callers):
                allow, why = NOP_EXCEPTIONS[sorted(exc_callers)[0]]
                why += " (moved into the helper %s)" % name.split("::")[-1]
        if "/mpc/" in b.file:
            for k, bb in enumerate(nops):
                n_nop += 1
                if bb in sent:
                    rep.ob(P + ".N", "%s|nop#%d" % (name, k), True, "nop receives a Send annotation", b.loc(bb))
            for k, bb in enumerate(unsent):
                ok = k < allow
                rep.ob(P + ".N", "%s|unsent-nop#%d" % (name, k), ok,
                       ("allowed: " + why) if ok else
                       "nop() created here never receives a Send annotation: the transfer it stands for does not happen",
                       b.loc(bb))
        # ---- Z
        if srcs and name not in SOURCE_DEFINERS:
            sent_all = set(sent) | set(transfers(facts, name, fl))

            def hook(fl_, bb, t, cn, sent=sent_all, b=b):
                if cn in SOURCES or cn in senders:
                    return "opaque"
                if cn in nop_like:
                    return "opaque" if bb in sent else list(range(len(t["args"])))
                if len(t["dest"]) == 1 and has_node(b.local_ty(t["dest"][0])):
                    return [i for i, a in enumerate(t["args"]) if a[0] != "k" and has_node(b.local_ty(a[1][0]))]
                return None
            flz = Flow(facts, b, EXTRA, call_hook=hook)
            sinks = []
            if has_node(b.local_ty(0)):
                for r in C.return_blocks(b):
                    sinks.append(("return", r, flz.origins([0], (r, None))))
            for bb, t in calls:
                if callee_name(t) in ("graphs::Node::set_as_output", "graphs::Graph::set_output_node") and not b.is_cleanup(bb):
                    a = t["args"][0 if callee_name(t).endswith("set_as_output") else 1]
                    sinks.append(("output", bb, flz.origins(a, (bb, None))))
            for sb in srcs:
                n_src += 1
                scn = callee_name(b.term(sb))
                hit = [k for k, bb, ors in sinks if ("call", sb, scn) in ors]
                k = srcs.index(sb)
                rep.ob(P + ".Z", "%s|%s#%d" % (name, scn.split("::")[-1], k), not hit,
                       ("shares from %s reach the %s of %s without passing through a nop()+Send: share i of a zero sharing is "
                        "known to party i only, so the other holder of that replicated share cannot compute it"
                        % (scn.split("::")[-1], "/".join(sorted(set(hit))), name)) if hit else
                       "every use of the shares from %s is sent (nop+Send) before it reaches the result" % scn.split("::")[-1],
                       b.loc(sb))
    if file_filter is None:
        rep.floor(P + ".S", "Send annotation sites", n_send, 40)
        rep.floor(P + ".N", "nop producers in mpc/**", n_nop, 40)
        rep.floor(P + ".Z", "uses of get_zero_shares/get_node_shares outside their definition", n_src, 4)
    else:
        rep.floor(P + ".S", "Send annotation sites in %s" % file_filter, n_send, 10)
        rep.floor(P + ".Z", "uses of get_zero_shares/get_node_shares in %s" % file_filter, n_src, 3)
    rep.analysed["send_sites"] = n_send
    rep.analysed["nop_producers"] = n_nop
    if file_filter is not None:
        party_arithmetic(facts, rep, P, file_filter)
        component_locality(facts, rep, P, file_filter)
    rep.tables["nop_exceptions"] = {k: v[1] for k, v in NOP_EXCEPTIONS.items()}
    if file_filter is None:
        planner(facts, rep)
        optimizer_keeps_transfers(facts, rep)
        party_indices(facts, rep)
        knowledge_typing(facts, rep)
        party_arithmetic(facts, rep)
        component_locality(facts, rep)
        local_status_is_disjunctive(facts, rep)
        # every designated output party receives the result: the party tested for membership is the receiver (shared with C03.R)
        from . import C03
        from .C06 import _Sub
        C03.reveal(facts, _Sub(rep, "C02"))
        from . import C07
        C07.inliner_keeps_annotations(facts, rep, "C02")


# ----------------------------------------------------------------------------- C02.K
PROTOCOL_HELPERS = {
    # helper called from compile_to_mpc_graph -> class
    "mpc::mpc_compiler::compile_to_mpc_graph::{closure#0}": "share-wise",  # placeholder, resolved below by name of apply_op
}


def planner(facts, rep):
    """C02.K — agreement between the resharing planner and the per-operation translation"""
    rep.rule("C02.K", "planner/protocol agreement: every Operation variant that compile_to_mpc_graph translates with an "
                      "interactive protocol (custom MPC op consuming replicated shares) makes compute_graph_resharing reshare "
                      "its private dependencies; the node inserted in the mapping for a to-be-reshared node is the reshared one")
    cg = facts.body("mpc::mpc_compiler::compile_to_mpc_graph")
    pl = None
    for n in facts.bodies:
        if n.endswith("compute_graph_resharing"):
            pl = facts.bodies[n]
    if not (rep.anchor("C02.K", "compile_to_mpc_graph", cg) and rep.anchor("C02.K", "compute_graph_resharing", pl)):
        return
    vs = V.variants(facts)
    ensure = [n for n in facts.bodies if n.endswith("ensure_dependencies_are_reshared")]
    if not rep.anchor("C02.K", "ensure_dependencies_are_reshared", ensure):
        return
    ens = ensure[0]
    table = {}
    n_protocol = 0
    for idx, name in vs:
        it = V.Interp(facts, idx)
        res = it.run(cg)
        callees = [c for _, c in res.reachable_calls() if c]
        uses_custom = any(c == "graphs::Graph::custom_op" for c in callees)
        interactive = sorted(set(c for c in callees if (c.startswith("mpc::") and c.split("::")[-1] in INTERACTIVE_HELPERS)
                                 or c == "graphs::Graph::custom_op"))
        it2 = V.Interp(facts, idx)
        res2 = it2.run(pl)
        resh = any(c == ens for _, c in res2.reachable_calls())
        table[name] = {"custom_op": uses_custom, "interactive_helpers": interactive, "planner_reshares_deps": resh}
        if interactive:
            n_protocol += 1
            rep.ob("C02.K", "reshare-before|%s" % name, resh,
                   "Operation::%s is compiled with %s, which consumes 2-out-of-3 replicated shares; the planner %s its "
                   "dependencies%s" % (name, [c.split("::")[-1] for c in interactive], "reshares" if resh else "does NOT reshare",
                                       "" if resh else ": a 3-out-of-3 product fed into the protocol is missing at the neighbour party"),
                   pl.loc())
    rep.tables["planner_vs_protocol"] = table
    product_sets_agree(facts, rep, pl, vs)
    rep.floor("C02.K", "variants compiled with an interactive protocol", n_protocol, 10)
    # a node the planner marked is reshared whatever its operation: with every membership test on nodes_to_reshare (and on
    # private_nodes) taken to be true, under each Operation variant every path to out_mapping.insert_node passes through
    # reshare() or through a multiplication helper that is handed the membership result as its `reshare` flag
    flc = Flow(facts, cg, EXTRA)
    marks = [bb for bb, t in cg.calls() if (callee_name(t) or "").endswith("::contains") and not cg.is_cleanup(bb)
             and "HashSet" in (callee_name(t) or "")]
    ins_all = [bb for bb, t in cg.calls() if (callee_name(t) or "").endswith("ContextMappings::insert_node") and not cg.is_cleanup(bb)]
    if marks and ins_all:
        resh_direct = [bb for bb, t in cg.calls() if (callee_name(t) or "").endswith("resharing::reshare") and not cg.is_cleanup(bb)]
        flagged = [bb for bb, t in cg.calls() if not cg.is_cleanup(bb) and (callee_name(t) or "").startswith("mpc::") and
                   any(a[0] != "k" and cg.local_ty(a[1][0]) == "bool" and
                       any(o[0] == "call" and o[1] in marks for o in flc.origins(a, (bb, None))) for a in t["args"])]
        errs_ = C.error_exit_blocks(cg)
        notre = []
        for idx, vname in vs:
            res_ = V.Interp(facts, idx, site_values={(cg.id, m_): ("b", True) for m_ in marks}).run(cg)
            live_ins = [i_ for i_ in ins_all if i_ in res_.blocks]
            if not live_ins:
                continue
            removed_ = {(x, y) for x, y in C.edges(cg) if (x, y) not in res_.edges}
            if not C.must_pass(cg, 0, live_ins, set(resh_direct) | set(flagged) | errs_, removed_edges=removed_, after=False):
                notre.append(vname)
        rep.ob("C02.K", "marked-node-is-reshared", not notre,
               "for every Operation variant a node found in nodes_to_reshare reaches the mapping only through reshare() (or a "
               "multiplication that is told to reshare)" if not notre else
               "a node the planner marked for resharing is put into the mapping un-reshared when its operation is %s: the 3-out-of-3 "
               "value is then revealed or consumed as if it were replicated" % sorted(notre)[:8], cg.loc(ins_all[0]))
    # the mapping entry of a to-be-reshared node is produced by reshare
    fl = Flow(facts, cg, EXTRA)
    resh_calls = [bb for bb, t in cg.calls() if (callee_name(t) or "").endswith("resharing::reshare") and not cg.is_cleanup(bb)]
    ins = [bb for bb, t in cg.calls() if (callee_name(t) or "").endswith("ContextMappings::insert_node") and not cg.is_cleanup(bb)]
    if rep.anchor("C02.K", "resharing::reshare call in compile_to_mpc_graph", resh_calls) and \
            rep.anchor("C02.K", "ContextMappings::insert_node in compile_to_mpc_graph", ins):
        # the `contains` test that controls the reshare call
        guards = []
        for bb, t in cg.calls():
            if (callee_name(t) or "").endswith("::contains") and not cg.is_cleanup(bb):
                rem = C.assume_call_results(cg, [(lambda cn, ct, cbb, bb=bb: cbb == bb, False)])
                if rem and not any(r in C.reachable(cg, [0], removed_edges=rem) for r in resh_calls):
                    guards.append(bb)
        if rep.anchor("C02.K", "membership test (nodes_to_reshare.contains) guarding reshare", guards):
            g = guards[-1]
            for cand in guards:  # innermost guard: dominated by all the others
                if all(C.dominates(cg, o, cand) for o in guards):
                    g = cand
            rem = C.assume_call_results(cg, [(lambda cn, ct, cbb: cbb == g, True)])
            errs = C.error_exit_blocks(cg)
            ok = C.must_pass(cg, g, ins, set(resh_calls) | errs, removed_edges=rem)
            rep.ob("C02.K", "mapping-gets-reshared-node", ok,
                   "when the planner marked the node, every path from the membership test to out_mapping.insert_node passes "
                   "through reshare()" if ok else
                   "a node marked for resharing can be put into the mapping un-reshared (3-out-of-3 shares used as replicated shares)",
                   cg.loc(g))
            ors = fl.origins(cg.term(ins[-1])["args"][2], (ins[-1], None))
            rep.ob("C02.K", "mapping-value-from-reshare", any(o[0] == "call" and o[1] in resh_calls for o in ors),
                   "the node inserted into the mapping may be the result of reshare()", cg.loc(ins[-1]))


def product_sets_agree(facts, rep, pl, vs):
    """sibling agreement inside the planner: the variants whose result compute_graph_resharing marks as 3-out-of-3 itself
    (products) are exactly the variants that sanity_pass exempts from un-marking"""
    sp = None
    for n in facts.bodies:
        if n.endswith("ResharingConfig::sanity_pass"):
            sp = facts.bodies[n]
    if not rep.anchor("C02.K", "ResharingConfig::sanity_pass", sp):
        return
    flp = Flow(facts, pl)
    ins = [bb for bb, t in pl.calls() if (callee_name(t) or "").endswith("::insert") and not pl.is_cleanup(bb)
           and (flp.trail(t["args"][0][1]) or [""])[-1] == "unreshared_nodes"]
    fls = Flow(facts, sp)
    tests = [bb for bb, t in sp.calls() if (callee_name(t) or "").endswith(("::contains", "::remove"))
             and not sp.is_cleanup(bb) and (fls.trail(t["args"][0][1]) or [""])[-1] in ("nodes_to_reshare", "unreshared_nodes")]
    loops = C.loops(sp)
    if not (rep.anchor("C02.K", "unreshared_nodes.insert in compute_graph_resharing", ins)
            and rep.anchor("C02.K", "membership tests / node loop in sanity_pass", tests and loops)):
        return
    h, blocks = max(loops, key=lambda x: len(x[1]))
    start = [s_ for s_ in sp.succs(h) if s_ in blocks]
    s1, s2 = set(), set()
    for idx, name in vs:
        r1 = V.Interp(facts, idx).run(pl)
        if any(b_ in r1.blocks for b_ in ins):
            s1.add(name)
        r2 = V.Interp(facts, idx).run(sp)
        removed = {(x, y) for x, y in C.edges(sp) if (x, y) not in r2.edges}
        reach = C.reachable(sp, start, removed_edges=removed, removed_blocks=set(tests))
        if h in reach:
            s2.add(name)
    rep.tables["planner_product_variants"] = {"marked_3of3_by_compute_graph_resharing": sorted(s1),
                                               "exempt_in_sanity_pass": sorted(s2)}
    rep.ob("C02.K", "product-sets-agree", s1 == s2 and bool(s1),
           "products marked 3-out-of-3 by the planner (%s) = variants exempt from un-marking in sanity_pass" % sorted(s1)
           if s1 == s2 else
           "the planner marks %s as 3-out-of-3 products but sanity_pass exempts %s: for %s the resharing mark is removed again "
           "and the 3-out-of-3 product is revealed / consumed without re-randomisation" % (sorted(s1), sorted(s2), sorted(s1 ^ s2)),
           sp.loc())


# helpers whose protocol consumes replicated (2-out-of-3) shares of its arguments and communicates
INTERACTIVE_HELPERS = {
    "multiply_mpc": "each party multiplies the two shares it holds of BOTH operands",
    "mixed_multiply_mpc": "bit-by-integer product via oblivious transfer",
    "general_multiply_mpc": "dot/matmul/gemm products of replicated shares",
    "a2b_mpc": "A2B", "b2a_mpc": "B2A", "truncate_mpc": "truncation",
}


# ----------------------------------------------------------------------------- C02.O
def optimizer_keeps_transfers(facts, rep):
    rep.rule("C02.O", "the optimizer cannot lose or merge transfers: the de-duplication key contains the node's annotations "
                      "(compared and hashed); annotated nodes are never folded into constants")
    nk = facts.adts.get("optimizer::duplicates_optimizer::NodeKey")
    if rep.anchor("C02.O", "NodeKey", nk):
        fs = {f["name"]: f["ty"] for f in nk["variants"][0]["fields"]}
        ann = [n for n, ty in fs.items() if "NodeAnnotation" in ty]
        rep.ob("C02.O", "NodeKey.annotations-field", bool(ann), "NodeKey has an annotations field: %s" % ann)
        from ..fields import field_accesses
        for tr, meth in (("std::cmp::PartialEq", "eq"), ("std::hash::Hash", "hash")):
            im = facts.impl_of(tr, "optimizer::duplicates_optimizer::NodeKey")
            if not rep.anchor("C02.O", "impl %s for NodeKey" % tr, im):
                continue
            if im["derived"]:
                rep.ob("C02.O", "NodeKey::%s reads annotations" % meth, True, "derived: all fields")
                continue
            b = [facts.body(f) for f in im["fns"] if f.endswith("::" + meth)]
            if rep.anchor("C02.O", "NodeKey::%s" % meth, b and b[0]):
                reads = {f for (adt, f, k) in field_accesses(facts, b[0]) if adt.endswith("NodeKey")}
                rep.ob("C02.O", "NodeKey::%s reads annotations" % meth, all(a in reads for a in ann) and bool(ann),
                       "NodeKey::%s reads fields %s" % (meth, sorted(reads)), b[0].loc())
        new = facts.body("optimizer::duplicates_optimizer::NodeKey::new")
        if rep.anchor("C02.O", "NodeKey::new", new):
            fl = Flow(facts, new)
            okk = False
            for bb, j, place, rv in new.assigns():
                if rv[0] == "agg" and rv[1].get("adt", "").endswith("NodeKey"):
                    for fname, op in zip(rv[1]["fields"], rv[2]):
                        if fname in ann:
                            ors = fl.origins(op, (bb, j))
                            okk = any(o[0] == "call" and o[2] == "graphs::Node::get_annotations" for o in ors)
            rep.ob("C02.O", "NodeKey::new fills annotations", okk,
                   "the key's annotations come from Node::get_annotations of the keyed node", new.loc())
    co = facts.body("optimizer::constant_optimizer::optimize_graph_constants")
    if rep.anchor("C02.O", "optimize_graph_constants", co):
        fl = Flow(facts, co)
        # assume `node.get_annotations()?.is_empty()` is false -> the folding call is unreachable
        def is_ann_empty(cn, ct, cbb):
            if not (cn or "").endswith("::is_empty"):
                return False
            return any(o[0] == "call" and o[2] == "graphs::Node::get_annotations"
                       for o in fl.origins(ct["args"][0], (cbb, None)))
        tests = [bb for bb, t in co.calls() if is_ann_empty(callee_name(t), t, bb)]
        res_ = V.executable_under(facts, co, site_values={(co.id, bb): ("b", False) for bb in tests})
        reach = res_.blocks
        # the Constant arm errors out on annotated constants; the generic arm must not reach evaluate_node
        folds = [bb for bb, t in co.calls() if (callee_name(t) or "").endswith("Evaluator::evaluate_node") and bb in reach
                 and not co.is_cleanup(bb)]
        rep.ob("C02.O", "constants|annotated-not-folded", bool(tests) and not folds,
               "with non-empty annotations no folding call (Evaluator::evaluate_node) is reachable in optimize_graph_constants "
               "(%d annotation test(s); reachable folds at bb%s)" % (len(tests), folds), co.loc())
    # the meta-operation pass never looks through a transfer: under Operation::NOP no proxy object is recorded, so the
    # re-created NOP (with its Send annotation) is what getters and consumers of the sent value are mapped to
    mo = facts.body("optimizer::meta_operation_optimizer::optimize_graph_meta_operations")
    ap = facts.body("optimizer::meta_operation_optimizer::maybe_apply_meta_op")
    if rep.anchor("C02.O", "optimize_graph_meta_operations", mo):
        vidx = {n: i for i, n in V.variants(facts)}

        def apply_model(interp, body, bb, t, args):
            return interp.run_callee(ap, [V.TOP, V.SUBJ, V.TOP]) if ap is not None else V.TOP
        models = {"optimizer::meta_operation_optimizer::maybe_apply_meta_op": apply_model}

        flm = Flow(facts, mo)
        # the question is about NOPs that carry annotations: `node.get_annotations()?.is_empty()` is taken to be false
        sv = {(mo.id, bb): ("b", False) for bb, t in mo.calls() if (callee_name(t) or "").endswith("::is_empty") and
              any(o[0] == "call" and o[2] == "graphs::Node::get_annotations" for o in flm.origins(t["args"][0], (bb, None)))}

        def proxy_inserts(variant):
            res = V.Interp(facts, vidx[variant], call_models=models, site_values=sv).run(mo)
            return [bb for bb, c in res.reachable_calls() if c and c.startswith("std::collections::HashMap") and c.endswith("::insert")
                    and "ProxyObjectWithNode" in str(mo.term(bb)["f"].get("ga", "")) + "".join(mo.local_ty(a[1][0]) for a in mo.term(bb)["args"] if a[0] != "k")
                    and "String" not in mo.local_ty(mo.term(bb)["args"][1][1][0])]
        if rep.anchor("C02.O", "Operation::NOP / CreateTuple variants", "NOP" in vidx and "CreateTuple" in vidx):
            ins = proxy_inserts("NOP")
            rep.ob("C02.O", "meta|nop-not-transparent", not ins,
                   "under Operation::NOP the meta pass records no proxy object: getters applied to a sent value keep reading the "
                   "received NOP node" if not ins else
                   "the meta pass records a proxy object for a NOP node: tuple_get / vector_get of a sent composite value is "
                   "redirected to the element from BEFORE the Send, so the receiver reads its own junk copy", mo.loc(ins[0]) if ins else mo.loc())
            rep.ob("C02.O", "meta|positive:CreateTuple", bool(proxy_inserts("CreateTuple")),
                   "positive control: under Operation::CreateTuple a proxy object is recorded (rule can fire)", mo.loc())


# ----------------------------------------------------------------------------- C02.P
def party_indices(facts, rep):
    rep.rule("C02.P", "literal party indices of Send annotations are in {0,1,2} and sender != receiver")
    n = 0
    uneval = 0
    for name, b in mpc_bodies(facts):
        for bb, j, place, rv in b.assigns():
            if rv[0] == "agg" and rv[1].get("adt") == "graphs::NodeAnnotation" and rv[1].get("vn") == "Send":
                a, c = rv[2][0], rv[2][1]
                if a[0] == "k" and c[0] == "k" and a[4] is not None and c[4] is not None:
                    n += 1
                    x, y = int(a[4]), int(c[4])
                    rep.ob("C02.P", "%s|Send(%d,%d)" % (name, x, y), 0 <= x <= 2 and 0 <= y <= 2 and x != y,
                           "Send(%d, %d): parties must be distinct members of {0,1,2}" % (x, y), b.loc(bb))
                else:
                    uneval += 1
    rep.analysed["send_literals_checked"] = n
    rep.analysed["send_operands_not_literal"] = uneval
    rep.floor("C02.P", "Send aggregates with literal parties", n, 10)


# ----------------------------------------------------------------------------- C02.W
# custom operations whose result is a 3-out-of-3 sharing (component i needs to be known to party i only); every other
# protocol returns a replicated sharing (component i known to parties i and i-1)
OUTPUT_3OF3 = ("MultiplyMPC", "DotMPC", "MatmulMPC", "GemmMPC", "MixedMultiplyMPC")


# protocols parameterised by role fields of self: the typing is run once per assignment of distinct parties to the roles
# (the helper is "the third party").  inputs: ordinal of g.input -> roles that hold it; output: roles that must know it.
# Source: the comment block above `struct ObliviousTransfer` ("Input values known to the sender", "Selection bit known to the
# receiver and helper", "PRF key known to the sender and helper", "OT returns i_b to a receiver party")
ROLE_PROTOCOLS = {
    "<mpc::utils::ObliviousTransfer as custom_ops::CustomOperationBody>::instantiate": {
        "roles": ("sender_id", "receiver_id"),
        "inputs": {0: "S", 1: "S", 2: "RH", 3: "SH"},
        "output": "R",
    },
}


# helper functions whose protocol is parameterised by one party-valued parameter; conventions of the other parameters from
# the comment block above the function ("c" = integers known to their owner S; "b" = replicated sharing; "prf_keys" = the
# multiplication key triple: component j held by parties j and j-1)
ROLE_FUNCTIONS = {
    "mpc::mpc_arithmetic::multiply_bits_by_public_integers": {
        "role_param": "integer_owner_id",
        "params": {"c": "S", "b": "triple", "prf_keys": "triple"},
    },
}


def role_functions(facts, rep):
    from ..knowledge import Knowledge
    Knowledge.ROLE_OPS = {n.split(" as ")[0].lstrip("<"): spec for n, spec in ROLE_PROTOCOLS.items()}
    judged = 0
    for name, spec in sorted(ROLE_FUNCTIONS.items()):
        b = facts.body(name)
        if not rep.anchor("C02.W", name, b):
            continue
        byname = {b.var_name(l): l for l in range(1, b.argc + 1)}
        if not rep.anchor("C02.W", "%s|parameters %s" % (name, sorted(spec["params"]) + [spec["role_param"]]),
                          all(x in byname for x in list(spec["params"]) + [spec["role_param"]])):
            continue
        verdicts = {}
        for owner in range(3):
            env = {("param", byname[spec["role_param"]]): owner}
            ph = {}
            for pn, conv in spec["params"].items():
                ph[byname[pn]] = "triple" if conv == "triple" else frozenset({"S": owner}[c] for c in conv)
            kn = Knowledge(facts, b, env=env, param_holders=ph)
            for k, (nb, (snd, rcv)) in enumerate(sorted(kn.sends.items())):
                src = kn.node_args(b.term(nb))
                if snd is None or not src:
                    continue
                K, exact = kn.of_operand(src[0], (nb, None))
                if exact:
                    verdicts.setdefault(("sender#%d" % k, nb), []).append((owner, snd in K, "Send(%s,%s) payload known to %s" % (snd, rcv, sorted(K))))
            # arguments handed to a role protocol must be held by the roles that protocol assumes
            for bb, t in b.calls():
                if b.is_cleanup(bb) or callee_name(t) != "graphs::Graph::custom_op":
                    continue
                ro = kn.role_op(bb)
                if ro is None:
                    continue
                rspec, who, _ = ro
                comps = kn.tuple_components(bb)
                if who is None or not comps:
                    verdicts.setdefault(("role-op-resolved", bb), []).append((owner, False, "role fields or argument vector not resolved"))
                    continue
                for i, (op_, at_) in enumerate(comps):
                    if i not in rspec["inputs"]:
                        continue
                    K, exact = kn.of_operand(op_, at_)
                    if not exact:
                        continue
                    need = {who[c] for c in rspec["inputs"][i]}
                    verdicts.setdefault(("sub-protocol-arg#%d" % i, bb), []).append(
                        (owner, need <= set(K), "argument %d known to %s, the sub-protocol assumes it is held by %s" % (i, sorted(K), sorted(need))))
        short = name.split("::")[-1]
        for (key, bb), vs in sorted(verdicts.items()):
            if len(vs) != 3:
                continue
            judged += 1
            bad = [v for v in vs if not v[1]]
            rep.ob("C02.W", "%s|roles|%s" % (short, key), not bad,
                   "for every owner of the public integers: %s" % vs[0][2] if not bad else
                   "for integer owner %s: %s" % (bad[0][0], bad[0][2]), b.loc(bb))
    return judged


def role_protocols(facts, rep):
    from ..knowledge import Knowledge
    judged = 0
    for name, spec in sorted(ROLE_PROTOCOLS.items()):
        b = facts.body(name)
        if not rep.anchor("C02.W", name, b):
            continue
        verdicts = {}      # key -> [(assignment, ok, detail)]
        for s_ in range(3):
            for r_ in range(3):
                if s_ == r_:
                    continue
                h_ = 3 - s_ - r_
                who = {"S": s_, "R": r_, "H": h_}
                env = {spec["roles"][0]: s_, spec["roles"][1]: r_}
                holders = {k: frozenset(who[c] for c in v) for k, v in spec["inputs"].items()}
                kn = Knowledge(facts, b, env=env, input_holders=holders)
                for k, (nb, (snd, rcv)) in enumerate(sorted(kn.sends.items())):
                    src = kn.node_args(b.term(nb))
                    if snd is None or not src:
                        continue
                    K, exact = kn.of_operand(src[0], (nb, None))
                    if exact:
                        verdicts.setdefault(("sender#%d" % k, nb), []).append(((s_, r_), snd in K, "Send(%s,%s) payload known to %s" % (snd, rcv, sorted(K))))
                for bb, t in b.calls():
                    cn = callee_name(t) or ""
                    if b.is_cleanup(bb) or cn not in ("graphs::Node::set_as_output", "graphs::Graph::set_output_node"):
                        continue
                    a = t["args"][0 if cn.endswith("set_as_output") else 1]
                    K, exact = kn.of_operand(a, (bb, None))
                    if exact:
                        need = {who[c] for c in spec["output"]}
                        verdicts.setdefault(("output", bb), []).append(((s_, r_), need <= set(K), "output known to %s, needed by %s" % (sorted(K), sorted(need))))
        short = name.split(" as ")[0].split("::")[-1]
        for (key, bb), vs in sorted(verdicts.items()):
            if len(vs) != 6:
                continue        # not exact under every role assignment: not judged
            judged += 1
            bad = [v for v in vs if not v[1]]
            rep.ob("C02.W", "%s|roles|%s" % (short, key), not bad,
                   "for all 6 assignments of (sender, receiver) the party named in the protocol can compute the value (%s)" % vs[0][2]
                   if not bad else
                   "for (sender, receiver) = %s: %s - the party that has to compute this value does not hold its ingredients"
                   % (bad[0][0], bad[0][2]), b.loc(bb))
    return judged


def knowledge_typing(facts, rep):
    from ..knowledge import Knowledge
    rep.rule("C02.W", "ownership typing where literal indices make it decidable: (K, exact) = parties certain to be able to compute "
                      "a node, exact only if every ingredient has a known holder (share/key component j of a protocol argument is "
                      "held by parties j and j-1; a sent value is also known to its receiver).  A literal sender must know an exact "
                      "payload; component i of a protocol's 3-tuple output, when exact, must be known to party i (and i-1 unless the "
                      "operation returns a 3-out-of-3 sharing).  Inexact values are never judged")
    judged = 0
    seen_out = 0
    for name, b in mpc_bodies(facts):
        if "/mpc/" not in b.file or b.kind == "closure":
            continue
        kn = None
        for bb, t in b.calls():
            cn = callee_name(t) or ""
            if b.is_cleanup(bb) or cn not in ("graphs::Node::set_as_output", "graphs::Graph::set_output_node"):
                continue
            kn = kn or Knowledge(facts, b)
            a = t["args"][0 if cn.endswith("set_as_output") else 1]
            for o in kn.fl.origins(a, (bb, None)):
                if o[0] == "call" and (callee_name(b.term(o[1])) or "").endswith("create_tuple"):
                    comp = kn.tuple_components(o[1])
                    if not comp or len(comp) != 3:
                        continue
                    seen_out += 1
                    three = any(x in name for x in OUTPUT_3OF3)
                    for i, c in enumerate(comp):
                        K, exact = kn.of_operand(c[0], c[1])
                        if not exact:
                            continue
                        judged += 1
                        need = {i} if three else {i, (i - 1) % 3}
                        rep.ob("C02.W", "%s|output[%d]" % (name, i), need <= set(K),
                               "output component %d is computable by parties %s (needs %s)" % (i, sorted(K), sorted(need))
                               if need <= set(K) else
                               "output component %d of the protocol is computable only by parties %s but must be held by %s: "
                               "the other holder ends up with a value it cannot derive (e.g. a PRF evaluated with a key it does not have)"
                               % (i, sorted(K), sorted(need)), b.loc(o[1]))
        if any(callee_name(t) == "graphs::Node::add_annotation" for _, t in b.calls()):
            kn = kn or Knowledge(facts, b)
            for k, (nb, (s_, r_)) in enumerate(sorted(kn.sends.items())):
                if s_ is None:
                    continue
                src = kn.node_args(b.term(nb))
                if not src:
                    continue
                K, exact = kn.of_operand(src[0], (nb, None))
                if not exact:
                    continue
                judged += 1
                rep.ob("C02.W", "%s|sender#%d" % (name, k), s_ in K,
                       "Send(%s,%s): the sender can compute the payload (known to %s)" % (s_, r_, sorted(K)) if s_ in K else
                       "Send(%s,%s): party %s sends a value that only parties %s can compute" % (s_, r_, s_, sorted(K)), b.loc(nb))
        # sends inside local closures, judged once per call site (the closure's parameters take the call's arguments)
        for cbb, ct in b.calls():
            cb = facts.bodies.get(callee_name(ct) or "")
            if cb is None or cb.kind != "closure" or b.is_cleanup(cbb):
                continue
            kn = kn or Knowledge(facts, b)
            ck = kn.closure_knowledge(cb.id, cbb)
            if ck is None:
                continue
            site_no = sum(1 for b2, t2 in b.calls() if callee_name(t2) == cb.id and b2 < cbb)
            for k, (nb, (s_, r_)) in enumerate(sorted(ck.sends.items())):
                if s_ is None:
                    continue
                src = ck.node_args(cb.term(nb))
                if not src:
                    continue
                K, exact = ck.of_operand(src[0], (nb, None))
                if not exact:
                    continue
                judged += 1
                rep.ob("C02.W", "%s|%s@call%d|sender#%d" % (name, cb.id.split("::")[-1], site_no, k), s_ in K,
                       "Send(%s,%s) inside the closure: the sender can compute the payload (known to %s)" % (s_, r_, sorted(K)) if s_ in K else
                       "Send(%s,%s) inside the closure: party %s sends a value that only parties %s can compute" % (s_, r_, s_, sorted(K)),
                       cb.loc(nb))
    judged += role_protocols(facts, rep)
    judged += role_functions(facts, rep)
    rep.analysed["knowledge_typed_judgements"] = judged
    rep.floor("C02.W", "exact ownership judgements", judged, 2)


# ----------------------------------------------------------------------------- C02.L
def local_status_is_disjunctive(facts, rep):
    """the 3-out-of-3 status of a local operation's result is the disjunction of its inputs' statuses"""
    rep.rule("C02.L", "local_operation_handler marks a node as un-reshared as soon as ONE dependency is un-reshared: the "
                      "membership tests on the dependencies are combined by a recognised disjunction (flag that is only ever "
                      "set to true / Iterator::any); a recognised conjunction (Iterator::all, flag cleared on a miss) is a "
                      "violation; other spellings are not judged")
    b = None
    for n in facts.bodies:
        if n.endswith("ResharingConfig::local_operation_handler"):
            b = facts.bodies[n]
    if not rep.anchor("C02.L", "ResharingConfig::local_operation_handler", b):
        return
    fam = facts.family(b.id)
    conj, disj = [], []
    for fb in fam:
        for bb, t in fb.calls():
            d = t["f"].get("def") or ""
            if fb.is_cleanup(bb):
                continue
            if d == "std::iter::Iterator::all":
                conj.append(fb.loc(bb))
            if d == "std::iter::Iterator::any":
                disj.append(fb.loc(bb))
    # flag pattern: a bool local initialised false, assigned true in a loop under contains == true
    fl = Flow(facts, b)
    for l in range(len(b.locals)):
        if b.local_ty(l) != "bool" or not b.var_name(l):
            continue
        vals = []
        for di in fl.defs_of.get(l, []):
            _, db, dj = fl.defs[di]
            if db >= 0 and dj is not None:
                rv = b.stmts(db)[dj][2]
                if rv[0] == "use" and rv[1][0] == "k" and rv[1][4] in ("0", "1"):
                    in_loop = any(db in blocks for _, blocks in C.loops(b))
                    vals.append((rv[1][4] == "1", in_loop))
        if vals and any(v and il for v, il in vals) and not any((not v) and il for v, il in vals) and any((not v) and not il for v, il in vals):
            disj.append("flag `%s`" % b.var_name(l))
        if vals and any((not v) and il for v, il in vals) and any(v and not il for v, il in vals):
            conj.append("flag `%s` cleared inside the loop" % b.var_name(l))
    rep.ob("C02.L", "local_operation_handler|disjunction", not conj,
           "dependency statuses are combined disjunctively (%s)" % (disj or "no recognised combinator: not judged") if not conj else
           "dependency statuses are combined with a conjunction (%s): a local operation mixing a 3-out-of-3 product with a "
           "replicated value is treated as replicated and never reshared" % conj, b.loc())


# ----------------------------------------------------------------------------- C02.D
# direction conventions stated by the property's own mechanism list: function -> (relation, reason)
DIRECTION = {
    "mpc::mpc_compiler::generate_prf_key_triple": ("to-previous", "key i is generated by party i and sent to party i-1"),
    "mpc::resharing::reshare": ("to-previous", "party i masks its share and sends it to party i-1"),
    "mpc::mpc_compiler::share_node": ("to-previous", "input share i goes from party i to party i-1 (party j holds shares j and j+1)"),
    "mpc::mpc_compiler::reveal_output": ("from-previous", "the share the first output party lacks is held and sent by its predecessor"),
}


def party_arithmetic(facts, rep, P="C02", file_filter=None):
    from .. import intexpr as IE
    rep.rule(P + ".D", "party arithmetic of Send annotations whose sender and receiver are functions of one index variable: for the "
                      "three values of that variable both parties are in {0,1,2} and differ; in the functions for which the "
                      "property states a direction (key triple, resharing, input sharing: i -> i-1; reveal: p-1 -> p) the "
                      "relation holds for every value, and a share picked by a variable index is the sender's own share")
    n = 0
    for name, b in mpc_bodies(facts, file_filter):
        if "/mpc/" not in b.file:
            continue
        fl = None
        k = 0
        for bb, j, place, rv in b.assigns():
            if not (rv[0] == "agg" and rv[1].get("adt") == "graphs::NodeAnnotation" and rv[1].get("vn") == "Send"):
                continue
            fl = fl or Flow(facts, b, EXTRA)
            sa, ra = IE.build(fl, b, rv[2][0]), IE.build(fl, b, rv[2][1])
            vs_ = IE.variables(sa) | IE.variables(ra)
            if len(vs_) != 1 or IE.unknown(sa) or IE.unknown(ra):
                k += 1
                continue
            v = list(vs_)[0]
            pairs = [(IE.evaluate(sa, {v: i}), IE.evaluate(ra, {v: i})) for i in range(3)]
            if any(x is None or y is None for x, y in pairs):
                k += 1
                continue
            n += 1
            valid = all(0 <= x <= 2 and 0 <= y <= 2 and x != y for x, y in pairs)
            rep.ob(P + ".D", "%s|send#%d|valid" % (name, k), valid,
                   "(sender, receiver) for index 0,1,2 = %s" % pairs if valid else
                   "for some index value the Send parties %s are not two distinct members of {0,1,2}" % pairs, b.loc(bb))
            root = b.root or name
            d = DIRECTION.get(name) or DIRECTION.get(root)
            if d and valid:
                if d[0] == "to-previous":
                    ok = all(y == (x - 1) % 3 for x, y in pairs) and sorted(x for x, _ in pairs) == [0, 1, 2]
                else:
                    ok = all(x == (y - 1) % 3 for x, y in pairs) and sorted(y for _, y in pairs) == [0, 1, 2]
                rep.ob(P + ".D", "%s|send#%d|direction" % (name, k), ok,
                       "%s: %s" % (d[1], pairs) if ok else
                       "expected %s, but the Send parties are %s: the value goes to a party that cannot use it while the one that "
                       "needs it never receives it (a global evaluator cannot see this)" % (d[1], pairs), b.loc(bb))
                # the share selected by a variable index is the sender's own
                sent_nops = [o[1] for bb2, t2 in b.calls() if callee_name(t2) == "graphs::Node::add_annotation"
                             and any(o2[0] == "agg" and o2[1] == bb and o2[2] == j for o2 in fl.origins(t2["args"][1], (bb2, None)))
                             for o in fl.origins(t2["args"][0], (bb2, None)) if o[0] == "call" and o[2] in NOPS]
                for nb in sent_nops:
                    t3 = b.term(nb)
                    pay = [a for a in t3["args"] if a[0] != "k" and "graphs::Node" in b.local_ty(a[1][0])]
                    if not pay:
                        continue
                    cone = _additive_cone(b, fl, pay[-1], (nb, None))
                    for ib in cone:
                        ti = b.term(ib)
                        if (callee_name(ti) or "").endswith("::index") and len(ti["args"]) == 2 and ti["args"][1][0] != "k":
                            ia = IE.build(fl, b, ti["args"][1])
                            if IE.variables(ia) == {v} and not IE.unknown(ia):
                                same = all(IE.evaluate(ia, {v: i}) == pairs[i][0] for i in range(3))
                                rep.ob(P + ".D", "%s|send#%d|own-share@%d" % (name, k, _ord_index(b, ib)), same,
                                       "the share picked by index is the sender's own share for every index value" if same else
                                       "the sender sends share %s while being party %s: it forwards a share it is not the designated "
                                       "sender of" % ([IE.evaluate(ia, {v: i}) for i in range(3)], [p_[0] for p_ in pairs]), b.loc(ib))
            k += 1
    # the zero sharing itself: alpha_i = PRF(k_i) - PRF(k_{i+1}); party i holds exactly keys i and i+1
    zb = facts.body("mpc::mpc_compiler::recursively_generate_node_shares")
    if file_filter is None and rep.anchor(P + ".D", "recursively_generate_node_shares", zb):
        zfl = Flow(facts, zb, EXTRA)
        found = 0
        for bb, t in zb.calls():
            if callee_name(t) not in ("graphs::Graph::subtract", "graphs::Node::subtract") or zb.is_cleanup(bb):
                continue
            idxs = []
            for a in [x for x in t["args"] if x[0] != "k" and "graphs::Node" in zb.local_ty(x[1][0])]:
                cone = _additive_cone(zb, zfl, a, (bb, None))
                for ib in cone:
                    ti = zb.term(ib)
                    if (callee_name(ti) or "").endswith("::index") and len(ti["args"]) == 2 and ti["args"][1][0] != "k":
                        if _holds_prf_outputs(facts, zb, zfl, ti["args"][0], (ib, None)):
                            idxs.append(IE.build(zfl, zb, ti["args"][1]))
            if len(idxs) != 2:
                continue
            vs_ = IE.variables(idxs[0]) | IE.variables(idxs[1])
            if len(vs_) != 1:
                continue
            v = list(vs_)[0]
            pairs = [(IE.evaluate(idxs[0], {v: i}), IE.evaluate(idxs[1], {v: i})) for i in range(3)]
            found += 1
            ok = all(x == i and y == (i + 1) % 3 for i, (x, y) in enumerate(pairs))
            rep.ob(P + ".D", "recursively_generate_node_shares|alpha", ok,
                   "alpha_i = PRF(k_i) - PRF(k_(i+1)): key indices %s" % pairs if ok else
                   "share i of the zero sharing uses keys %s; party i holds keys i and i+1 only, so it cannot compute its own share" % pairs,
                   zb.loc(bb))
        rep.anchor(P + ".D", "recursively_generate_node_shares|difference of two indexed PRF outputs", found >= 1)
    rep.analysed["send_sites_with_evaluated_party_arithmetic"] = n
    rep.floor(P + ".D", "Send sites whose parties are a function of one index variable", n, 5 if file_filter is None else 1)


def _holds_prf_outputs(facts, b, fl, op, at, depth=0):
    """is the container made of prf() results - pushed in a loop, or collected from `keys.into_iter().map(|k| g.prf(k, ..))`"""
    PRF_ = ("graphs::Graph::prf", "graphs::Node::prf")
    if op[0] == "k" or depth > 5:
        return False
    for o in fl.origins(op, at):
        if o[0] == "call" and o[2] in PRF_:
            return True
        if o[0] == "agg" and o[3] and "closure" in str(o[3]):
            pass
        if o[0] == "call":
            t = b.term(o[1])
            d = (t["f"].get("def") or "") + " " + (o[2] or "")
            if not any(x in d for x in ("std::iter", "IntoIterator", "::collect", "::branch", "from_iter", "::map", "::into_iter")):
                continue
            for a in t["args"]:
                if a[0] == "k":
                    continue
                ty = b.local_ty(a[1][0])
                if "closure@" in ty:
                    for cb in facts.closures_of(b.root or b.id):
                        if ("closure@%s:%d:" % (cb.file, cb.line)) in ty and any(callee_name(ct) in PRF_ for _, ct in cb.calls()):
                            return True
                elif _holds_prf_outputs(facts, b, fl, a, (o[1], None), depth + 1):
                    return True
    return False


def _ord_index(b, bb):
    k = 0
    for x, t in b.calls():
        if x == bb:
            return k
        if (callee_name(t) or "").endswith("::index"):
            k += 1
    return k


def _additive_cone(b, fl, op, at, depth=0, seen=None):
    """call blocks in the additive closure (add/subtract/sum/nop + value-preserving steps) of a payload operand"""
    seen = seen if seen is not None else set()
    ADD = ("graphs::Node::add", "graphs::Graph::add", "graphs::Node::subtract", "graphs::Graph::subtract",
           "mpc::mpc_compiler::recursively_sum_shares")
    if op[0] == "k" or depth > 12:
        return seen
    l = op[1][0]
    for di in fl.reaching_defs(l, at):
        _, bb, j = fl.defs[di]
        if bb < 0 or (bb, j) in seen:
            continue
        seen.add((bb, j))
        if j is None:
            t = b.term(bb)
            cn = callee_name(t) or ""
            seen.add(bb)
            from ..flow import transparent_args
            ta = transparent_args(cn) or (list(range(len(t["args"]))) if cn in ADD else None)
            if t["f"].get("def") in ("std::clone::Clone::clone", "std::ops::Deref::deref"):
                ta = [0]
            if ta:
                for i in ta:
                    if i < len(t["args"]):
                        _additive_cone(b, fl, t["args"][i], (bb, None), depth + 1, seen)
            if cn == "std::boxed::box_assume_init_into_vec_unsafe":
                root = fl.root_of(t["args"][0][1][0])
                for (wb, wj, place, rv) in fl.ptr_writes.get(root, ()):
                    if rv[0] == "agg":
                        for o in rv[2]:
                            _additive_cone(b, fl, o, (wb, wj), depth + 1, seen)
        else:
            rv = b.stmts(bb)[j][2]
            if rv[0] == "use":
                _additive_cone(b, fl, rv[1], (bb, j), depth + 1, seen)
            elif rv[0] in ("ref", "raw"):
                _additive_cone(b, fl, ["c", [rv[2][0]]], (bb, j), depth + 1, seen)
            elif rv[0] == "agg":
                for o in rv[2]:
                    _additive_cone(b, fl, o, (bb, j), depth + 1, seen)
    return {x for x in seen if isinstance(x, int)}


# ----------------------------------------------------------------------------- C02.H
# functions whose per-component results form a 3-out-of-3 sharing: component i may use what party i holds (shares i, i+1)
THREE_OF_THREE_BUILDERS = {"mpc::mpc_arithmetic::private_product": "ABY3 multiplication: z_i = x_i*y_i + x_i*y_(i+1) + x_(i+1)*y_i"}


def _range_loop_vars(b, fl=None):
    """locals bound to the counter of `for v in 0..PARTIES` loops (constant bounds 0 and 3): local -> loop blocks"""
    from .. import intexpr as IE
    out = {}
    fl = fl or Flow(None, b)
    for h, blocks in C.loops(b):
        for bb in blocks:
            t = b.term(bb)
            if not (t["k"] == "call" and (callee_name(t) or "").endswith("::next") and "Range" in (callee_name(t) or "")):
                continue
            # the Range value iterated: aggregate std::ops::Range { start, end } reaching the receiver of next()
            rng = None
            if t["args"] and t["args"][0][0] != "k":
                root = fl.root_of(t["args"][0][1][0])
                seen = set()
                work = [root]
                while work and rng is None:
                    l = work.pop()
                    if l in seen:
                        continue
                    seen.add(l)
                    for di in fl.defs_of.get(l, []):
                        _, db, dj = fl.defs[di]
                        if db < 0:
                            continue
                        if dj is None:
                            tt = b.term(db)
                            if (callee_name(tt) or "").endswith("::into_iter") and tt["args"] and tt["args"][0][0] != "k":
                                work.append(fl.root_of(tt["args"][0][1][0]))
                        else:
                            rv = b.stmts(db)[dj][2]
                            if rv[0] == "agg" and rv[1].get("adt") == "std::ops::Range":
                                rng = (IE.build(fl, b, rv[2][0]), IE.build(fl, b, rv[2][1]))
                            elif rv[0] == "use" and rv[1][0] != "k":
                                work.append(rv[1][1][0])
            if rng is None or IE.evaluate(rng[0], {}) != 0 or IE.evaluate(rng[1], {}) != 3:
                continue
            out[t["dest"][0]] = blocks   # the Option returned by next(): `(_n as Some).0` is the counter
            for bb2, j2, pl, rv in b.assigns():
                if bb2 in blocks and len(pl) == 1 and rv[0] == "use" and rv[1][0] != "k" and rv[1][1][0] == t["dest"][0] \
                        and len(rv[1][1]) > 1:
                    out[pl[0]] = blocks
    return out


def component_locality(facts, rep, P="C02", file_filter=None):
    from .. import intexpr as IE
    rep.rule(P + ".H", "component-wise locality: in a loop over the party index i, a locally computed component i of a replicated "
                      "sharing may only use share i of its inputs (both holders, parties i and i-1, must be able to compute it); "
                      "in the product protocol (3-out-of-3 result) shares i and i+1.  Checked for every share index that is a "
                      "function of the loop variable (tuple_get(x, e(i)) and reads of share vectors), evaluated for i = 0,1,2")
    n = 0
    for name, b in mpc_bodies(facts, file_filter):
        if "/mpc/" not in b.file:
            continue
        fl = Flow(facts, b, EXTRA)
        lv = _range_loop_vars(b, fl)
        if not lv:
            continue
        three = name in THREE_OF_THREE_BUILDERS
        # share vectors: Vec<Node> whose stores are pushes of tuple_get(x, identity) inside a range loop
        sharevecs = {}
        for root, sts in fl.stores.items():
            if "Vec<graphs::Node>" not in b.local_ty(root):
                continue
            ok = bool(sts)
            for (sb, ops) in sts:
                good = False
                for o in ops:
                    for oo in fl.origins(o, (sb, None)):
                        if oo[0] == "call" and callee_name(b.term(oo[1])) in ("graphs::Graph::tuple_get", "graphs::Node::tuple_get"):
                            e = IE.build(fl, b, b.term(oo[1])["args"][-1])
                            vs_ = IE.variables(e)
                            if len(vs_) == 1 and list(vs_)[0][0] in lv and \
                                    all(IE.evaluate(e, {list(vs_)[0]: i}) == i for i in range(3)):
                                good = True
                ok = ok and good
            if ok:
                sharevecs[root] = True
        k = 0
        for bb, t in b.calls():
            cn = callee_name(t) or ""
            if b.is_cleanup(bb):
                continue
            e = None
            what = None
            if cn in ("graphs::Graph::tuple_get", "graphs::Node::tuple_get") and t["args"][-1][0] != "k":
                e = IE.build(fl, b, t["args"][-1])
                what = "tuple_get"
            elif cn.endswith("::index") and len(t["args"]) == 2 and t["args"][1][0] != "k" and t["args"][0][0] != "k" \
                    and fl.root_of(t["args"][0][1][0]) in sharevecs:
                e = IE.build(fl, b, t["args"][1])
                what = "share vector read"
            if e is None or IE.unknown(e):
                continue
            vs_ = IE.variables(e)
            if len(vs_) != 1:
                continue
            v = list(vs_)[0]
            if v[0] not in lv or bb not in lv[v[0]]:
                continue
            vals = [IE.evaluate(e, {v: i}) for i in range(3)]
            if any(x is None for x in vals):
                continue
            n += 1
            allowed = [{i, (i + 1) % 3} if three else {i} for i in range(3)]
            ok = all(vals[i] in allowed[i] for i in range(3))
            rep.ob(P + ".H", "%s|%s#%d" % (name, what.split()[0], k), ok,
                   "%s index for i=0,1,2 is %s" % (what, vals) if ok else
                   "%s uses share %s for i=0,1,2, but component i may only use share%s: a holder of the result component does "
                   "not hold the share it is computed from (the sum over all components is unchanged, so a global evaluator "
                   "sees nothing)" % (what, vals, "s i and i+1" if three else " i"), b.loc(bb))
            k += 1
    rep.tables["three_of_three_builders"] = THREE_OF_THREE_BUILDERS
    rep.floor(P + ".H", "share indices that are functions of the party loop variable", n, 30 if file_filter is None else 3)
