"""C19 — share-provenance clause of the compiled join: rules C02.S / C02.N / C02.Z restricted to mpc/mpc_psi.rs."""
from . import C02


def run(facts, rep, tier):
    C02.run(facts, rep, tier, file_filter="mpc/mpc_psi.rs", pid="C19")
