"""C15 — PRF/PRNG purity and determinism clauses."""
from ..flow import Flow, field_name
from ..facts import callee_name
from .. import cfg as C
from .. import vcai as V
from .. import callgraph as CG
from ..fields import field_accesses

AMBIENT = ("random::get_bytes_from_os", "OsRng", "getrandom", "SystemTime", "Instant::now", "thread_rng", "rand::random",
           "std::env::", "from_entropy", "RandomState::new")


def is_ambient(name):
    return name is not None and any(a in name for a in AMBIENT)


def reach_ambient(facts, seeds):
    """call chains from seeds to a source of ambient randomness/time (through crate bodies; external callees by name)"""
    seen = CG.reach(facts, seeds)
    hits = []
    for n in seen:
        b = facts.bodies[n]
        for bb, t in b.calls():
            cn = callee_name(t)
            if is_ambient(cn) and not b.is_cleanup(bb):
                hits.append((CG.chain(seen, n), cn, b.loc(bb)))
            d = t["f"].get("def")
            if d != cn and is_ambient(d) and not b.is_cleanup(bb):
                hits.append((CG.chain(seen, n), d, b.loc(bb)))
    return seen, hits


def _arith_sig(fl, b, op, depth=0):
    """structural signature of an integer expression over parameters and constants (casts, shifts, arithmetic)"""
    if op[0] == "k":
        return ("const", op[4] if op[4] is not None else op[2])
    l = op[1][0]
    if 1 <= l <= b.argc:
        return ("param", l)
    ds = fl.defs_of.get(l, [])
    if len(ds) != 1 or depth > 12:
        return ("local", l)
    _, bb, j = fl.defs[ds[0]]
    if bb < 0 or j is None:
        return ("opaque", bb)
    rv = b.stmts(bb)[j][2]
    if rv[0] == "use":
        return _arith_sig(fl, b, rv[1], depth + 1)
    if rv[0] == "cast":
        return ("cast", rv[3], _arith_sig(fl, b, rv[2], depth + 1))
    if rv[0] == "bin":
        return ("bin", rv[1], _arith_sig(fl, b, rv[2], depth + 1), _arith_sig(fl, b, rv[3], depth + 1))
    return ("opaque", bb, j)


def _cache_helper_mode(facts, rep, ev, fl, blocks, var, outfn):
    """C15.C when the per-key cache is wrapped in a helper that receives the key and a closure computing the output"""
    for hb_bb, t in ev.calls():
        if hb_bb not in blocks:
            continue
        h = facts.bodies.get(callee_name(t) or "")
        if h is None or h.kind == "closure" or h.file != ev.file:
            continue
        ents = [bb for bb, ht in h.calls() if (callee_name(ht) or "").endswith("::entry") and "HashMap" in (callee_name(ht) or "") and not h.is_cleanup(bb)]
        news = [bb for bb, ht in h.calls() if callee_name(ht) == "random::Prf::new" and not h.is_cleanup(bb)]
        if not ents or not news:
            continue
        hfl = Flow(facts, h, {"data_values::Value::access_bytes": [0]})
        # (1) the Prf is built from the key the entry is looked up with
        ent_or = set()
        for e in ents:
            ent_or |= {o for o in hfl.origins(h.term(e)["args"][1], (e, None)) if o[0] != "const"}
        key_params = {o[1] for o in ent_or if o[0] == "param"}
        okk = bool(key_params)
        for nb in news:
            ko = {o for o in hfl.origins(h.term(nb)["args"][0], (nb, None)) if o[0] not in ("const", "agg")}
            for o in ko:
                if o[0] == "param" and o[1] in key_params:
                    continue
                if o[0] == "call" and o[2].endswith("::key") and "hash_map" in o[2] and len(ents) == 1 and \
                        any((x[0] == "call" and x[1] in ents) or (x[0] == "param" and x[1] == 1)
                            for x in hfl.origins(h.term(o[1])["args"][0], (o[1], None))):
                    continue        # `e.key()` of the (single) entry looked up with the key parameter
                if o[0] == "call" and o[1] in ents:
                    continue
                okk = False
            if not ko:
                okk = False
        rep.ob("C15.C", "%s|cached-prf-keyed-by-its-key" % var, okk,
               "in %s the cached Prf is built from the key the cache entry is looked up with" % h.id.split("::")[-1], h.loc(news[0]))
        # (2) the computation handed in is applied on both the vacant and the occupied branch
        cparams = [l for l in range(1, h.argc + 1) if not h.local_ty(l).startswith(("&", "std::vec::Vec")) and "Prf" not in h.local_ty(l)
                   and l not in key_params and l != 1]
        applied = [bb for bb, ht in h.calls() if not h.is_cleanup(bb) and (ht["f"].get("def") or "").startswith("std::ops::FnOnce::call_once")
                   or (not h.is_cleanup(bb) and (ht["f"].get("def") or "") in ("std::ops::Fn::call", "std::ops::FnMut::call_mut"))]
        rep.ob("C15.C", "%s|both-branches-evaluate" % var, len(applied) >= 2,
               "the computation passed to %s is applied on the vacant and on the occupied branch (%d site(s))" % (h.id.split("::")[-1], len(applied)), h.loc())
        # (3) the key handed to the helper is the bytes of dependency 0, and the closure evaluates the node's own (counter, type)
        ka = [a for i, a in enumerate(t["args"]) if i + 1 in key_params]
        kok = bool(ka) and all(any(o[0] == "param" and o[1] == 3 for o in fl.origins(a, (hb_bb, None))) for a in ka)
        rep.ob("C15.C", "%s|key-is-dependency-bytes" % var, kok, "the key given to the cache helper derives from the node's key dependency", ev.loc(hb_bb))
        good = False
        for a in t["args"]:
            if a[0] == "k" or "closure@" not in ev.local_ty(a[1][0]):
                continue
            for cb in facts.closures_of(ev.id):
                if ("closure@%s:%d:" % (cb.file, cb.line)) not in ev.local_ty(a[1][0]):
                    continue
                cfl = Flow(facts, cb)
                site = [(bb, j, rv) for bb, j, place, rv in ev.assigns() if rv[0] == "agg" and rv[1].get("k") == "closure" and rv[1].get("def") == cb.id]
                for cbb, ct in cb.calls():
                    if callee_name(ct) != outfn or cb.is_cleanup(cbb) or len(site) != 1:
                        continue
                    ok_args = True
                    for arg in ct["args"][1:3]:
                        for o in cfl.origins(arg, (cbb, None)):
                            if o[0] != "upvar" or o[1] >= len(site[0][2][2]):
                                ok_args = False
                                continue
                            po = fl.origins(site[0][2][2][o[1]], (site[0][0], site[0][1]))
                            if not po or not all(x[0] == "call" and x[2] == "graphs::Node::get_operation" for x in po):
                                ok_args = False
                    good = good or ok_args
        rep.ob("C15.C", "%s|args#0" % var, good,
               "the closure handed to the cache helper evaluates %s at the node's own counter and output type" % outfn.split("::")[-1], ev.loc(hb_bb))
        rep.ob("C15.C", "%s|anchors" % var, True, "Prf::new and cache entry found in the helper %s" % h.id.split("::")[-1], h.loc())
        return True
    return False


def run(facts, rep, tier):
    rep.rule("C15.P", "the PRF is stateless: Prf has no field besides the AES key schedule; output_value/output_permutation only "
                      "read self; the PrfSession they use is created in the same call from the counter argument only")
    rep.rule("C15.E", "no ambient randomness, time or environment on deterministic paths: Prf::output_*, PrfSession::*, the PRNG "
                      "methods and seeded construction never reach OS randomness")
    rep.rule("C15.C", "the evaluator's per-key PRF cache cannot change outputs: the cached Prf is built from the bytes it is keyed by "
                      "and both cache branches evaluate the node's own (counter, type)")
    prf = facts.adts.get("random::Prf")
    if rep.anchor("C15.P", "random::Prf", prf):
        fs = prf["variants"][0]["fields"]
        rep.ob("C15.P", "Prf.fields", len(fs) == 1 and "Aes128" in fs[0]["ty"],
               "Prf fields: %s (only the keyed cipher; no counter, buffer or cache that could make outputs depend on history)"
               % [(f["name"], f["ty"]) for f in fs])
    outs = [n for n in ("random::Prf::output_value", "random::Prf::output_permutation") if n in facts.bodies]
    rep.floor("C15.P", "Prf output functions", len(outs), 2)
    for n in outs:
        b = facts.bodies[n]
        fl = Flow(facts, b)
        wr = [(adt, f) for (adt, f, k) in field_accesses(facts, b) if k == "w" and adt == "random::Prf"]
        rep.ob("C15.P", "%s|self-read-only" % n, not wr, "no write or mutable borrow of a Prf field (%s)" % wr, b.loc())
        # self itself is not handed to another function
        leaks = []
        for bb, t in b.calls():
            for a in t["args"]:
                if a[0] != "k" and fl.root_of(a[1][0]) == 1 and not [p for p in a[1][1:] if p != "*"]:
                    tr = fl.trail(a[1])
                    if not tr:
                        leaks.append(callee_name(t))
        rep.ob("C15.P", "%s|self-not-passed-on" % n, not leaks, "&mut self is not passed to another function (%s)" % leaks, b.loc())
        # session provenance
        sess_calls = [(bb, t) for bb, t in b.calls() if (callee_name(t) or "").startswith("random::PrfSession::")
                      and not callee_name(t).endswith("::new") and not b.is_cleanup(bb)]
        news = [bb for bb, t in b.calls() if callee_name(t) == "random::PrfSession::new"]
        ok = bool(sess_calls) and bool(news)
        for bb, t in sess_calls:
            ors = {o for o in fl.origins(t["args"][0], (bb, None)) if o[0] == "call"}
            if not ors or not all(o[2] == "random::PrfSession::new" for o in ors):
                ok = False
        rep.ob("C15.P", "%s|fresh-session" % n, ok,
               "every PrfSession used is created by PrfSession::new in the same call (%d use(s))" % len(sess_calls), b.loc())
        for nb in news:
            ors = fl.leaf_deps(b.term(nb)["args"][0], (nb, None))
            rep.ob("C15.P", "%s|session-from-counter" % n, ors == {("param", 2, ())},
                   "PrfSession::new receives the counter argument (%s)" % sorted(map(str, ors)), b.loc(nb))
        # the session does not escape into the result or a field: result origins must not be the session itself
    # sibling agreement: both output functions derive the session position from the counter in the same way
    from .C09 import expr_sig
    sigs = {}
    for n in outs:
        b = facts.bodies[n]
        fl = Flow(facts, b)
        for nb, t in b.calls():
            if callee_name(t) == "random::PrfSession::new":
                sigs[n] = _arith_sig(fl, b, t["args"][0])
    if len(sigs) == 2:
        a, c = list(sigs.values())
        rep.ob("C15.P", "siblings|session-position", a == c,
               "output_value and output_permutation pass the counter to PrfSession::new in the same form (%s)" % str(a)[:80]
               if a == c else
               "output_value and output_permutation derive the stream position differently (%s vs %s): streams of different "
               "counters / output kinds can overlap" % (str(a)[:80], str(c)[:80]))
    sn = facts.body("random::PrfSession::new")
    if rep.anchor("C15.P", "random::PrfSession::new", sn):
        fl = Flow(facts, sn)
        found = False
        for bb, j, place, rv in sn.assigns():
            if rv[0] == "agg" and rv[1].get("adt") == "random::PrfSession":
                found = True
                k = rv[1]["fields"].index("input")
                deps = fl.leaf_deps(rv[2][k], (bb, j))
                nonconst = {d for d in deps if d[0] != "const"}
                rep.ob("C15.P", "PrfSession::new|input-from-counter", nonconst == {("param", 1, ())},
                       "the stream position is initialised from the counter only (%s)" % sorted(map(str, nonconst)), sn.loc(bb))
        rep.ob("C15.P", "PrfSession::new|aggregate", found, "PrfSession aggregate found")
    # ---------------------------------------------------------------- C15.E
    det_seeds = outs + [n for n in facts.bodies if n.startswith("random::PrfSession::")]
    seen, hits = reach_ambient(facts, det_seeds)
    rep.ob("C15.E", "prf-paths", not hits,
           "no ambient randomness/time reachable from %d PRF functions (%d bodies searched)%s" % (
               len(det_seeds), len(seen), "" if not hits else ": " + "; ".join("%s -> %s" % (" -> ".join(c), a) for c, a, _ in hits[:3])))
    prng_methods = [n for n in facts.bodies if n.startswith("random::PRNG::") and not n.endswith("::new")]
    rep.floor("C15.E", "PRNG methods", len(prng_methods), 3)
    seen2, hits2 = reach_ambient(facts, prng_methods)
    rep.ob("C15.E", "prng-methods", not hits2,
           "PRNG methods (%d) never reach OS randomness: a seeded generator replays%s" % (
               len(prng_methods), "" if not hits2 else ": " + "; ".join("%s -> %s" % (" -> ".join(c), a) for c, a, _ in hits2[:3])))
    # positive control: unseeded construction does reach it
    seen3, hits3 = reach_ambient(facts, ["random::PRNG::new"])
    rep.ob("C15.E", "positive:PRNG::new", bool(hits3), "positive control: PRNG::new can reach OS randomness (rule can fire)")
    some = ("enum", "std::option::Option", 1, "Some", (V.TOP,))
    for ctor in ("random::PRNG::new", "random::Prf::new"):
        b = facts.body(ctor)
        if not rep.anchor("C15.E", ctor, b):
            continue
        res = V.executable_under(facts, b, params={1: some})
        bad = []
        for bb, cn in res.reachable_calls():
            if is_ambient(cn):
                bad.append(cn)
            elif cn in facts.bodies and cn != ctor:
                # callee reached with which argument?  PRNG::new(None) inside Prf::new must not execute
                s4, h4 = reach_ambient(facts, [cn])
                if h4 and cn in ("random::PRNG::new",):
                    arg = res.env.get(b.term(bb)["args"][0][1][0], V.TOP) if b.term(bb)["args"][0][0] != "k" else V.TOP
                    bad.append("%s(%s)" % (cn, V.fmt(arg)))
        rep.ob("C15.E", "%s|seeded" % ctor, not bad,
               "with Some(seed/key) no OS randomness is drawn (%s)" % bad, b.loc())
        res0 = V.executable_under(facts, b, params={1: ("enum", "std::option::Option", 0, "None", ())})
        rep.ob("C15.E", "%s|positive-unseeded" % ctor,
               any(is_ambient(cn) or cn == "random::PRNG::new" for _, cn in res0.reachable_calls()),
               "positive control: with None the OS generator is used", b.loc())
    # ---------------------------------------------------------------- C15.C
    ev = None
    for n, b in facts.bodies.items():
        if n.endswith("::evaluate_node") and "SimpleEvaluator" in n and b.impl and b.impl.get("trait"):
            ev = b
    if rep.anchor("C15.C", "SimpleEvaluator::evaluate_node", ev):
        fl = Flow(facts, ev, {"data_values::Value::access_bytes": [0]})
        vidx = {n: i for i, n in V.variants(facts)}
        for var, outfn in (("PRF", "random::Prf::output_value"), ("PermutationFromPRF", "random::Prf::output_permutation")):
            res = V.Interp(facts, vidx[var]).run(ev)
            blocks = res.normal_blocks()
            outs_ = [bb for bb, t in ev.calls() if bb in blocks and callee_name(t) == outfn]
            news = [bb for bb, t in ev.calls() if bb in blocks and callee_name(t) == "random::Prf::new"]
            ents = [bb for bb, t in ev.calls() if bb in blocks and (callee_name(t) or "").endswith("::entry")
                    and "HashMap" in (callee_name(t) or "")]
            if not ents and not news:
                # the cache logic lives in a helper method: `self.evaluate_with_prf(key, |prf| prf.output_value(iv, t))`
                if _cache_helper_mode(facts, rep, ev, fl, blocks, var, outfn):
                    continue
            rep.ob("C15.C", "%s|both-branches-evaluate" % var, len(outs_) >= 2,
                   "the vacant and the occupied cache branch both call %s (%d site(s))" % (outfn.split("::")[-1], len(outs_)), ev.loc())
            for k, bb in enumerate(outs_):
                t = ev.term(bb)
                a1 = {o for o in fl.origins(t["args"][1], (bb, None))}
                a2 = {o for o in fl.origins(t["args"][2], (bb, None))}
                ok = all(o[0] == "call" and o[2] == "graphs::Node::get_operation" for o in a1 | a2) and bool(a1) and bool(a2)
                rep.ob("C15.C", "%s|args#%d" % (var, k), ok,
                       "the PRF is evaluated at the node's own counter and output type (origins %s)" % sorted(
                           set(o[2].split("::")[-1] if o[0] == "call" else o[0] for o in a1 | a2)), ev.loc(bb))
            for bb in news:
                t = ev.term(bb)
                key_or = {o for o in fl.origins(t["args"][0], (bb, None)) if o[0] not in ("const",)}
                ent_or = set()
                for e in ents:
                    ent_or |= {o for o in fl.origins(ev.term(e)["args"][1], (e, None)) if o[0] not in ("const",)}
                okk = bool(key_or) and bool(ent_or) and key_or <= ent_or | {o for o in key_or if o[0] == "agg"} and \
                    any(o[0] == "param" and o[1] == 3 for o in ent_or)
                # arg must be Some(..)
                a = t["args"][0]
                is_some = False
                if a[0] != "k":
                    for di in fl.defs_of.get(a[1][0], []):
                        _, db, dj = fl.defs[di]
                        if dj is not None:
                            rv = ev.stmts(db)[dj][2]
                            if rv[0] == "agg" and rv[1].get("adt") == "std::option::Option" and rv[1].get("vn") == "Some":
                                is_some = True
                rep.ob("C15.C", "%s|cached-prf-keyed-by-its-key" % var, okk and is_some,
                       "the cached Prf is built with Some(bytes of dependency 0), the same bytes the cache is keyed by "
                       "(key origins %s, entry origins %s, Some=%s)" % (sorted(map(str, key_or)), sorted(map(str, ent_or)), is_some), ev.loc(bb))
            rep.ob("C15.C", "%s|anchors" % var, bool(news) and bool(ents), "Prf::new and cache entry found in the %s arm" % var, ev.loc())
