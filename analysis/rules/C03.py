"""C03 — two necessary conditions of privacy: outputs go only to listed parties; messages of the masking
protocols the property names carry a fresh additive mask."""
from ..flow import Flow
from ..facts import callee_name
from .. import cfg as C
from .. import vcai as V
from . import C02

MASK = ("graphs::Graph::prf", "graphs::Node::prf", "graphs::Graph::random", "mpc::mpc_compiler::get_zero_shares",
        "mpc::mpc_compiler::get_node_shares")
PERM = ("graphs::Graph::random_permutation", "graphs::Graph::permutation_from_prf", "graphs::Node::permutation_from_prf")
ADDITIVE = ("graphs::Node::add", "graphs::Graph::add", "graphs::Node::subtract", "graphs::Graph::subtract",
            "graphs::Node::nop", "graphs::Graph::nop", "mpc::mpc_compiler::recursively_sum_shares")
# functions in which EVERY message must be one-time-pad masked (the mechanisms the property names) -> reason
REQUIRE_MASK = {
    "mpc::resharing::reshare": "products are re-randomised with a fresh zero sharing before any share leaves a party",
    "<mpc::utils::ObliviousTransfer as custom_ops::CustomOperationBody>::instantiate": "oblivious transfer masks both messages and the helper's selection",
    "<mpc::mpc_truncate::TruncateMPC2K as custom_ops::CustomOperationBody>::instantiate": "truncation masks r, y0, y2 and 2-out-of-2 resharing",
    "<mpc::mpc_truncate::TruncateMPC as custom_ops::CustomOperationBody>::instantiate": "general divisor: one re-masked share",
    "mpc::mpc_compiler::share_node": "inputs are shared as (x + a0, a1, a2) with a_i = PRF(k_i) - PRF(k_{i+1})",
}


def has_node(ty):
    return "graphs::Node" in ty


class Classifier:
    def __init__(self, facts):
        self.facts = facts
        self.closure_masked = {}

    def flow(self, b):
        def hook(fl_, bb, t, cn):
            if cn in MASK or cn in PERM:
                return "opaque"
            if cn in ADDITIVE or cn in C02.nop_wrappers(self.facts) or cn in C02.annotating_helpers(self.facts):
                return [i for i, a in enumerate(t["args"]) if a[0] != "k" and has_node(b.local_ty(a[1][0]))]
            cb_ = self.facts.bodies.get(cn)
            if cb_ is not None and cb_.kind == "closure" and cn in C02.send_wrappers(self.facts):
                return [1]      # `send(value, from, to)`: the sent node is the value handed in (the argument tuple)
            return None
        return Flow(self.facts, b, C02.EXTRA, call_hook=hook)

    def leaves(self, b, fd, op, at):
        out = set()
        for o in fd.origins(op, at):
            if o[0] == "call":
                cb = self.facts.bodies.get(o[2])
                if cb is not None and cb.kind == "closure":
                    out.add(("closure-masked" if self.closure_is_masked(cb) else "closure-unmasked", o[2]))
                else:
                    out.add(("call", o[2]))
            elif o[0] in ("param", "upvar"):
                out.add((o[0], o[1]))
        return out

    def closure_is_masked(self, cb):
        """every Node returned by the closure has a mask source in its additive closure"""
        if cb.id in self.closure_masked:
            return self.closure_masked[cb.id]
        self.closure_masked[cb.id] = False
        fd = self.flow(cb)
        ok = True
        found = False
        for bb, j, place, rv in cb.assigns():
            if place == [0] and rv[0] == "agg" and rv[1].get("vn") == "Ok" and rv[2]:
                # Ok(x) or Ok((a, b))
                op = rv[2][0]
                comps = [op]
                if op[0] != "k":
                    for di in fd.defs_of.get(op[1][0], []):
                        _, db, dj = fd.defs[di]
                        if dj is not None:
                            r2 = cb.stmts(db)[dj][2]
                            if r2[0] == "agg" and r2[1].get("k") == "tuple":
                                comps = r2[2]
                for c in comps:
                    if c[0] == "k" or not has_node(cb.local_ty(c[1][0])):
                        continue
                    found = True
                    lv = self.leaves(cb, fd, c, (bb, j))
                    if not any(k == "call" and n in MASK for k, n in lv):
                        ok = False
        if not found:
            # `|| -> Result<Node> { g.prf(..) }`: the return place is defined by the call itself
            rets = [(fd.defs[i][1]) for i in fd.defs_of.get(0, []) if fd.defs[i][2] is None and fd.defs[i][1] >= 0]
            if rets and all((callee_name(cb.term(r)) or "") in MASK for r in rets):
                ok, found = True, True
        self.closure_masked[cb.id] = ok and found
        return ok and found

    def classify(self, lv):
        if any(k == "call" and n in MASK for k, n in lv) or any(k == "closure-masked" for k, n in lv):
            return "A"
        if any(k == "call" and (n in PERM or n.endswith(("::gather", "::apply_permutation"))) for k, n in lv):
            return "P"
        if any(k == "call" and n.endswith("generate_prf_key_triple") for k, n in lv):
            return "K"
        return "B"


def _call_sites(facts, cb):
    """[(caller body, block, {param local: (operand, at)})] for a local closure or a crate-local helper function"""
    out = []
    if cb.kind == "closure":
        root = facts.bodies.get(cb.root or "")
        callers = [root] + [c_ for c_ in facts.closures_of(cb.root or "") if c_ is not cb]     # also called from sibling closures
    else:
        callers = [b for _, b in C02.mpc_bodies(facts)]
    for parent in callers:
        if parent is None:
            continue
        pfl = None
        for bb, t in parent.calls():
            if callee_name(t) != cb.id or parent.is_cleanup(bb):
                continue
            if cb.kind != "closure":
                out.append((parent, bb, {i + 1: (a, (bb, None)) for i, a in enumerate(t["args"])}))
                continue
            pfl = pfl or Flow(facts, parent, C02.EXTRA)
            binds = None
            if len(t["args"]) == 2 and t["args"][1][0] != "k":
                for di in pfl.defs_of.get(t["args"][1][1][0], []):
                    _, db, dj = pfl.defs[di]
                    if db >= 0 and dj is not None:
                        rv = parent.stmts(db)[dj][2]
                        if rv[0] == "agg" and rv[1].get("k") == "tuple":
                            binds = {i + 2: (o, (db, dj)) for i, o in enumerate(rv[2])}
            out.append((parent, bb, binds))
    return out


def _classify_per_call_site(facts, cl, cb, lv):
    """a message built inside a local closure or helper from its parameters (`mask_and_send(value, &mask)`): the class is
    decided at every call site with the arguments substituted; all sites must be masked"""
    sites = _call_sites(facts, cb)
    if not sites:
        return cl.classify(lv)
    base = {x for x in lv if x[0] != "param"}
    params = sorted(x[1] for x in lv if x[0] == "param")
    classes = []
    flows = {}
    for parent, bb, binds in sites:
        if binds is None:
            return "B"
        pfd = flows.get(parent.id) or flows.setdefault(parent.id, cl.flow(parent))
        site_lv = set(base)
        for l in params:
            if l in binds:
                site_lv |= cl.leaves(parent, pfd, binds[l][0], binds[l][1])
        classes.append(cl.classify(site_lv))
    return "A" if all(c == "A" for c in classes) else classes[0] if len(set(classes)) == 1 else "B"


def run(facts, rep, tier):
    rep.rule("C03.R", "outputs are sent only towards listed output parties: with no output party no Send is reachable in "
                      "reveal_output; the first receiver derives from output_parties; every further Send is unreachable unless "
                      "output_parties.contains(Party(x)) holds for the x that becomes the receiver")
    rep.rule("C03.M", "in the masking protocols the property names (resharing, oblivious transfer, truncation, input sharing) every "
                      "message (payload of a nop that gets a Send) has a fresh pseudo-random term in its additive closure "
                      "(add / subtract / sum / nop): PRF output, random value or an element of a zero sharing")
    reveal(facts, rep)
    cl = Classifier(facts)
    table = {}
    n = 0
    helper_of = {}
    for name, b in C02.mpc_bodies(facts):
        if "/mpc/" not in b.file:
            continue
        fl = Flow(facts, b, C02.EXTRA)
        tr = C02.transfers(facts, name, fl)
        if not tr:
            continue
        fd = cl.flow(b)
        root = b.root or name
        req = REQUIRE_MASK.get(name) or REQUIRE_MASK.get(root)
        if not req and b.kind != "closure":
            callers = {(pb.root or pb.id) for pb, _, _ in _call_sites(facts, b)}
            if callers and all(c_ in REQUIRE_MASK for c_ in callers):
                req = REQUIRE_MASK[sorted(callers)[0]] + " (helper of %s)" % sorted(callers)[0].split("::")[-1]
                helper_of.setdefault(sorted(callers)[0], []).append(name)
        for k, nb in enumerate(sorted(tr)):
            pay = tr[nb]
            lv = cl.leaves(b, fd, pay, (nb, None)) if pay is not None else set()
            # a nop created by a wrapper: the wrapper forwards its Node argument
            c = cl.classify(lv)
            if c != "A" and any(k_ == "param" for k_, _ in lv):
                c = _classify_per_call_site(facts, cl, b, lv)
            n += 1
            table["%s#%d" % (name, k)] = {"class": c, "leaves": sorted(set(x[1].split("::")[-1] if isinstance(x[1], str) else str(x[1]) for x in lv))}
            if req:
                rep.ob("C03.M", "%s|send#%d" % (name, k), c == "A",
                       "message carries a fresh additive mask (%s) [%s]" % (table["%s#%d" % (name, k)]["leaves"], req) if c == "A" else
                       "message of a masking protocol has no pseudo-random term in its additive closure (leaves: %s): the receiver "
                       "sees a value that depends on another party's data [%s]" % (table["%s#%d" % (name, k)]["leaves"], req), b.loc(nb))
    masks_hidden(facts, rep)
    planner_products(facts, rep)
    rep.tables["send_payload_classes"] = table
    rep.tables["classes"] = {"A": "one-time-pad shape: additive closure contains PRF/random/zero-share term",
                             "P": "composition with a random permutation (shuffle protocols)", "K": "PRF key distribution",
                             "B": "share component or protocol result forwarded as is (reveal steps) - informational, not a verdict"}
    rep.analysed["send_sites_classified"] = n
    for f_, why in REQUIRE_MASK.items():
        rep.anchor("C03.M", "%s|Send sites of the masking protocol (its own or in helpers only it calls)" % f_,
                   any(k.startswith(f_) or any(k.startswith(h_) for h_ in helper_of.get(f_, [])) for k in table))
    fam_ = list(REQUIRE_MASK) + [h_ for hs in helper_of.values() for h_ in hs]
    rep.floor("C03.M", "messages of the named masking protocols", sum(1 for k in table if any(k.startswith(f_) for f_ in fam_)), 8)


PRFS = ("graphs::Graph::prf", "graphs::Node::prf")


def _key_index(b, fl, t, bb):
    """index k of the key-triple component a prf() call uses, when the key is `triple.tuple_get(k)` with a literal k"""
    cn = callee_name(t)
    ka = t["args"][1] if cn == "graphs::Graph::prf" else t["args"][0]
    ks = set()
    for o in fl.origins(ka, (bb, None)):
        if o[0] == "call" and o[2] in ("graphs::Node::tuple_get", "graphs::Graph::tuple_get"):
            ia = b.term(o[1])["args"][-1]
            if ia[0] == "k" and ia[4] is not None:
                ks.add(int(ia[4]))
                continue
        return None
    return ks.pop() if len(ks) == 1 else None


def _closure_prf_keys(facts, b, fl, cname):
    """key-triple indices of every prf() inside closure `cname` created in body b (keys captured from b); None = unresolved"""
    cb = facts.bodies.get(cname)
    site = [(bb, j, rv) for bb, j, place, rv in b.assigns() if rv[0] == "agg" and rv[1].get("k") == "closure" and rv[1].get("def") == cname]
    if cb is None or len(site) != 1:
        return None
    sb, sj, srv = site[0]
    cfl = Flow(facts, cb, C02.EXTRA)
    out = []
    for bb, t in cb.calls():
        cn = callee_name(t)
        if cn in MASK and cn not in PRFS or cn in PERM:
            return None
        if cn not in PRFS or cb.is_cleanup(bb):
            continue
        ka = t["args"][1] if cn == "graphs::Graph::prf" else t["args"][0]
        ks = set()
        for o in cfl.origins(ka, (bb, None)):
            if o[0] != "upvar" or o[1] >= len(srv[2]):
                return None
            for po in fl.origins(srv[2][o[1]], (sb, sj)):
                if po[0] == "call" and po[2] in ("graphs::Node::tuple_get", "graphs::Graph::tuple_get"):
                    ia = b.term(po[1])["args"][-1]
                    if ia[0] == "k" and ia[4] is not None:
                        ks.add(int(ia[4]))
                        continue
                return None
        if len(ks) != 1:
            return None
        out.append(ks.pop())
    return out


def masks_hidden(facts, rep):
    """C03.H: the pseudo-random term that masks a message is one the receiver cannot compute"""
    from .. import intexpr as IE
    rep.rule("C03.H", "a mask hides a message only from a party that cannot recompute it: for every Send whose payload's additive "
                      "closure contains pseudo-random terms that can all be resolved (PRF under key-triple component k, held by "
                      "parties k and k-1; element i of a zero sharing, computable by party i), at least one of them is unknown to "
                      "the receiver, for every value of the loop index")
    n = 0
    fds = {}
    cl_ = Classifier(facts)
    for name, b in C02.mpc_bodies(facts):
        if "/mpc/" not in b.file:
            continue
        fl = None
        k = -1
        for bb, j, place, rv in b.assigns():
            if not (rv[0] == "agg" and rv[1].get("adt") == "graphs::NodeAnnotation" and rv[1].get("vn") == "Send"):
                continue
            k += 1
            fl = fl or Flow(facts, b, C02.EXTRA)
            sa, ra = IE.build(fl, b, rv[2][0]), IE.build(fl, b, rv[2][1])
            vs_ = IE.variables(sa) | IE.variables(ra)
            if len(vs_) > 1 or IE.unknown(sa) or IE.unknown(ra):
                continue
            v = list(vs_)[0] if vs_ else None
            envs = [{v: i} for i in range(3)] if v is not None else [{}]
            recv = [IE.evaluate(ra, e) for e in envs]
            if any(r is None for r in recv):
                continue
            nops = [o[1] for bb2, t2 in b.calls() if callee_name(t2) == "graphs::Node::add_annotation"
                    and any(o2[0] == "agg" and o2[1] == bb and o2[2] == j for o2 in fl.origins(t2["args"][1], (bb2, None)))
                    for o in fl.origins(t2["args"][0], (bb2, None)) if o[0] == "call" and o[2] in C02.NOPS]
            for nb in nops:
                t3 = b.term(nb)
                pay = [a for a in t3["args"] if a[0] != "k" and "graphs::Node" in b.local_ty(a[1][0])]
                if not pay:
                    continue
                cone = C02._additive_cone(b, fl, pay[-1], (nb, None))
                masks = []      # (description, [known-to-receiver per env]) or None when unresolved
                for ib in sorted(cone):
                    ti = b.term(ib)
                    cn = callee_name(ti) or ""
                    if cn in PRFS:
                        ki = _key_index(b, fl, ti, ib)
                        masks.append(None if ki is None else
                                     ("PRF(key %d)" % ki, [r in (ki % 3, (ki - 1) % 3) for r in recv]))
                    elif cn in ("graphs::Graph::random",) or cn in PERM:
                        masks.append(None)
                    elif cn.endswith("::index") and len(ti["args"]) == 2:
                        ro = fl.origins(ti["args"][0], (ib, None))
                        if any(o[0] == "call" and o[2] in C02.SOURCES for o in ro):
                            ia = IE.build(fl, b, ti["args"][1])
                            if IE.unknown(ia) or not IE.variables(ia) <= ({v} if v is not None else set()):
                                masks.append(None)
                            else:
                                ix = [IE.evaluate(ia, e) for e in envs]
                                masks.append(None if any(x is None for x in ix) else
                                             ("zero share %s" % ix, [x % 3 == r for x, r in zip(ix, recv)]))
                    elif cn in MASK:
                        masks.append(None)
                # masks contributed through local closures (e.g. share_for_two): every prf() in the closure counts
                fd = fds.get(name) or fds.setdefault(name, cl_.flow(b))
                for o in fd.origins(pay[-1], (nb, None)):
                    cb = facts.bodies.get(o[2]) if o[0] == "call" else None
                    if cb is None or cb.kind != "closure":
                        continue
                    ck = _closure_prf_keys(facts, b, fl, o[2])
                    if ck is None:
                        masks.append(None)
                        continue
                    masks += [("PRF(key %d) in closure" % ki, [r in (ki % 3, (ki - 1) % 3) for r in recv]) for ki in ck]
                    # what the closure is applied to at this call site
                    for a in b.term(o[1])["args"][1:]:
                        for ib in C02._additive_cone(b, fl, a, (o[1], None)):
                            cn2 = callee_name(b.term(ib)) or ""
                            if cn2 in PRFS:
                                ki = _key_index(b, fl, b.term(ib), ib)
                                masks.append(None if ki is None else
                                             ("PRF(key %d)" % ki, [r in (ki % 3, (ki - 1) % 3) for r in recv]))
                            elif cn2 in MASK or cn2 in PERM:
                                masks.append(None)
                if not masks or any(m is None for m in masks):
                    continue
                n += 1
                bad = [i for i in range(len(envs)) if all(m[1][i] for m in masks)]
                rep.ob("C03.H", "%s|send#%d" % (name, k), not bad,
                       "receiver(s) %s cannot recompute at least one of the masks %s" % (recv, [m[0] for m in masks]) if not bad else
                       "every pseudo-random term masking this message (%s) is computable by its receiver (party %s): the mask "
                       "can be removed and the receiver sees the unmasked value" % ([m[0] for m in masks], [recv[i] for i in bad]),
                       b.loc(nb))
    n += masks_hidden_roles(facts, rep)
    rep.analysed["send_sites_with_resolved_masks"] = n
    rep.floor("C03.H", "Send sites whose masks are all resolved", n, 1)


def masks_hidden_roles(facts, rep):
    """C03.H for protocols parameterised by roles (ObliviousTransfer): the holders of each PRF term are derived by the
    ownership typing (E7) under every assignment of parties to the roles; the receiver must not be among the holders of at
    least one mask"""
    from ..knowledge import Knowledge
    n = 0
    for name, spec in sorted(C02.ROLE_PROTOCOLS.items()):
        b = facts.body(name)
        if not rep.anchor("C03.H", name, b):
            continue
        verdicts = {}
        for s_ in range(3):
            for r_ in range(3):
                if s_ == r_:
                    continue
                who = {"S": s_, "R": r_, "H": 3 - s_ - r_}
                kn = Knowledge(facts, b, env={spec["roles"][0]: s_, spec["roles"][1]: r_},
                               input_holders={k: frozenset(who[c] for c in v) for k, v in spec["inputs"].items()})
                for k, (nb, (snd, rcv)) in enumerate(sorted(kn.sends.items())):
                    pay = kn.node_args(b.term(nb))
                    if rcv is None or not pay:
                        continue
                    masks = []
                    for ib in sorted(C02._additive_cone(b, kn.fl, pay[-1], (nb, None))):
                        cn = callee_name(b.term(ib)) or ""
                        if cn in PRFS:
                            K, exact = kn.of_call(ib)
                            masks.append((sorted(K), rcv in K) if exact is True else None)
                        elif cn in MASK or cn in PERM:
                            masks.append(None)
                    if masks and all(m is not None for m in masks):
                        verdicts.setdefault((k, nb), []).append(((s_, r_), rcv, masks))
        short = name.split(" as ")[0].split("::")[-1]
        for (k, nb), vs in sorted(verdicts.items()):
            if len(vs) != 6:
                continue
            n += 1
            bad = [v for v in vs if all(m[1] for m in v[2])]
            rep.ob("C03.H", "%s|roles|send#%d" % (short, k), not bad,
                   "under all 6 role assignments the receiver holds the key of none / not all of the masks (e.g. %s: receiver %s, "
                   "mask holders %s)" % (vs[0][0], vs[0][1], [m[0] for m in vs[0][2]]) if not bad else
                   "for (sender, receiver) = %s the receiver (party %s) can recompute every mask of this message (holders %s)"
                   % (bad[0][0], bad[0][1], [m[0] for m in bad[0][2]]), b.loc(nb))
    return n


def planner_products(facts, rep):
    """shared with C02.K: a private x private product left un-reshared is revealed / consumed without re-randomisation"""
    rep.rule("C03.K", "products are re-randomised before any share leaves a party: the operations the planner marks as 3-out-of-3 "
                      "products are exactly those sanity_pass keeps marked (shared with C02.K product-sets-agree)")
    C02.planner(facts, _Relabel(rep))


class _Relabel:
    """forwards C02.K obligations under the C03.K label"""
    def __init__(self, rep):
        self.rep = rep

    def __getattr__(self, n):
        return getattr(self.rep, n)

    def _r(self, rule):
        return rule.replace("C02.K", "C03.K")

    def rule(self, rule, text):
        pass

    def ob(self, rule, key, *a, **kw):
        return self.rep.ob(self._r(rule), key, *a, **kw)

    def anchor(self, rule, *a, **kw):
        return self.rep.anchor(self._r(rule), *a, **kw)

    def floor(self, rule, *a, **kw):
        return self.rep.floor(self._r(rule), *a, **kw)

    def fail(self, rule, *a, **kw):
        return self.rep.fail(self._r(rule), *a, **kw)


def reveal(facts, rep):
    root = facts.body("mpc::mpc_compiler::reveal_output")
    if not rep.anchor("C03.R", "mpc::mpc_compiler::reveal_output", root):
        return
    # the reveal family: reveal_output and the helpers it calls that place Send annotations and receive the party list
    fam = [root]
    for bb, t in root.calls():
        cb = facts.bodies.get(callee_name(t) or "")
        if cb is None or cb in fam or cb.kind == "closure" or "/mpc/" not in cb.file or root.is_cleanup(bb):
            continue
        has_send = any(rv[0] == "agg" and rv[1].get("adt") == "graphs::NodeAnnotation" and rv[1].get("vn") == "Send"
                       for _, _, _, rv in cb.assigns())
        if has_send and any("IOStatus" in cb.local_ty(l) for l in range(1, cb.argc + 1)):
            fam.append(cb)
    total = 0
    per_body = []
    for b in fam:
        fl = Flow(facts, b, C02.EXTRA)
        sites = C02.send_sites(facts, b, fl)
        total += len(sites)
        per_body.append((b, fl, sites))
    rep.floor("C03.R", "Send sites in reveal_output (and the helpers it hands the party list to)", total, 2)
    for b, fl, sites in per_body:
        label = "" if b is root else b.id.split("::")[-1] + "|"
        outp = None
        for l in range(1, b.argc + 1):
            if "IOStatus" in b.local_ty(l):
                outp = l
        if not rep.anchor("C03.R", "%soutput_parties parameter" % label, outp):
            continue
        if b is root:
            # (1) empty list -> nothing sent (neither here nor through a helper of the family)
            empties = [bb for bb, t in b.calls() if (callee_name(t) or "").endswith("::is_empty") and not b.is_cleanup(bb)
                       and any(o[0] == "param" and o[1] == outp for o in fl.origins(t["args"][0], (bb, None)))]
            if rep.anchor("C03.R", "output_parties.is_empty() test", empties):
                res = V.executable_under(facts, b, site_values={(b.id, e): ("b", True) for e in empties})
                live = [bb for bb, _, _ in sites if bb in res.blocks]
                live += [bb for bb, t in b.calls() if bb in res.blocks and not b.is_cleanup(bb)
                         and facts.bodies.get(callee_name(t) or "") in fam[1:]]
                rep.ob("C03.R", "no-party-no-send", not live,
                       "with an empty output-party list no Send annotation is reachable (the result stays shared)", b.loc(empties[0]))
        # receivers.  Membership tests: output_parties.contains(&Party(x)), or a predicate helper `is_output_party(&output_parties, x)`
        tests = []      # (block, operand that names the tested party, is it wrapped in IOStatus::Party)
        for bb, t in b.calls():
            if b.is_cleanup(bb):
                continue
            cn = callee_name(t) or ""
            if cn.endswith("::contains") and any(o[0] == "param" and o[1] == outp for o in fl.origins(t["args"][0], (bb, None))):
                tests.append((bb, t["args"][1], True))
                continue
            hb = facts.bodies.get(cn)
            if hb is None or hb.kind == "closure" or hb.local_ty(0) != "bool":
                continue
            lp = [i for i, a in enumerate(t["args"]) if a[0] != "k" and any(o[0] == "param" and o[1] == outp for o in fl.origins(a, (bb, None)))]
            if not lp:
                continue
            hfl = Flow(facts, hb)
            for hbb, ht in hb.calls():
                if not (callee_name(ht) or "").endswith("::contains") or hb.is_cleanup(hbb):
                    continue
                if not any(o[0] == "param" and o[1] == lp[0] + 1 for o in hfl.origins(ht["args"][0], (hbb, None))):
                    continue
                # which helper parameter is wrapped into Party(..)
                for o in hfl.origins(ht["args"][1], (hbb, None)):
                    if o[0] == "agg" and o[3].endswith("IOStatus::Party"):
                        x = hb.stmts(o[1])[o[2]][2][2][0]
                        ps = {d[1] for d in hfl.leaf_deps(x, (o[1], o[2])) if d[0] == "param"}
                        if len(ps) == 1 and ps.pop() - 1 < len(t["args"]):
                            pidx = [d[1] for d in hfl.leaf_deps(x, (o[1], o[2])) if d[0] == "param"][0] - 1
                            tests.append((bb, t["args"][pidx], False))
        contains = [x[0] for x in tests]
        for k, (bb, recv, aggs) in enumerate(sites):
            agg = aggs[0]
            rv = b.stmts(agg[1])[agg[2]][2]
            r_op = rv[2][1]
            deps = fl.leaf_deps(r_op, (agg[1], agg[2]))
            pd = {d for d in deps if d[0] != "const"}
            from_outp = bool(pd) and all(d[0] == "param" and d[1] == outp or d[0] in ("index",) for d in pd)
            guarded = False
            if contains:
                res = V.executable_under(facts, b, site_values={(b.id, c): ("b", False) for c in contains})
                guarded = bb not in res.blocks
            if guarded:
                # the membership test is about the value that becomes the receiver
                same = False
                for c, a, wrapped in tests:
                    cd = {d for d in fl.leaf_deps(a, (c, None)) if d[0] not in ("const", "agg")}
                    if cd and cd == {d for d in pd}:
                        same = True
                    # aggregate IOStatus::Party(x): compare x
                    for o in (fl.origins(a, (c, None)) if wrapped else ()):
                        if o[0] == "agg" and o[3].endswith("IOStatus::Party"):
                            x = b.stmts(o[1])[o[2]][2][2][0]
                            xd = {d for d in fl.leaf_deps(x, (o[1], o[2])) if d[0] != "const"}
                            if xd == pd:
                                same = True
                rep.ob("C03.R", "%ssend#%d|guarded-by-membership" % (label, k), same,
                       "this Send is unreachable unless output_parties.contains(Party(x)) holds, and x is the receiver of the Send"
                       if same else "the membership test is not about the party that receives the value", b.loc(bb))
            else:
                rep.ob("C03.R", "%ssend#%d|receiver-from-output-parties" % (label, k), from_outp,
                       "the receiver of this Send derives only from output_parties (%s)" % sorted(map(str, pd)) if from_outp else
                       "a value is sent to a party that does not come from output_parties (%s) and the Send is not guarded by a "
                       "membership test: a non-recipient learns the output" % sorted(map(str, pd)), b.loc(bb))
