"""C04 — every pseudo-random mask is fresh (structural clauses)."""
from ..flow import Flow, field_name
from .common import copy_helpers, is_add_call, pass_body, same_file_family
from ..facts import callee_name
from .. import cfg as C
from .. import vcai as V

PRF_FAMILY = ("PRF", "PermutationFromPRF")
RANDOM_CTORS = ("PRF", "PermutationFromPRF", "Random", "RandomPermutation")


def tables(facts):
    memo = {}
    t = {}
    for short in ("is_input", "is_prf_operation", "is_randomizing", "is_const_optimizable", "update_prf_id"):
        tb = V.predicate_table(facts, "graphs::Operation::" + short, memo)
        t[short] = tb
    return t


def is_true(v):
    return v == ("b", True) or (v[0] == "enum" and v[3] == "Ok" and v[4] and v[4][0] == ("b", True))


def is_false(v):
    return v == ("b", False) or (v[0] == "enum" and v[3] == "Ok" and v[4] and v[4][0] == ("b", False))


def is_err(v):
    return v[0] == "enum" and v[3] == "Err"


def protected_variants(tb):
    """variants that draw randomness, evaluate a PRF, or are inputs"""
    out = []
    for name in tb["is_input"]:
        why = []
        if is_true(tb["is_input"][name]):
            why.append("input")
        if is_true(tb["is_prf_operation"][name]):
            why.append("prf")
        if is_true(tb["is_randomizing"][name]):
            why.append("randomizing")
        if why:
            out.append((name, "+".join(why)))
    return out


def run(facts, rep, tier):
    rep.rule("C04.F", "constant folding never applies to an operation that is an input, evaluates a PRF or draws randomness: "
                      "is_const_optimizable is Ok(false) for each such variant and, interpreting optimize_graph_constants "
                      "under that variant, the evaluator call that folds a node is unreachable while add_node_with_type is reached")
    rep.rule("C04.D", "de-duplication never merges such operations: NodeKey::new returns Ok(None) for each such variant and "
                      "optimize_graph_duplicates looks up an existing node only with Some(key)")
    rep.rule("C04.U", "uniquify_prf_id renumbers with a strict counter: one initialisation outside the loops, only `+= 1` "
                      "writes, increment dominates the use inside the same iteration; PRF variants get the updated operation, "
                      "all others are copied unchanged; update_prf_id rebuilds the same variant with the given id")
    rep.rule("C04.P", "pipeline order: compile_to_mpc -> run_instantiation_pass -> inline_operations -> uniquify_prf_id, "
                      "and nothing that duplicates nodes (inlining / instantiation) runs after the renumbering")
    rep.rule("C04.R", "the is_randomizing table is complete: the evaluator arm of a variant uses the evaluator's PRNG iff "
                      "is_randomizing(variant) is Ok(true); PRF arms do not touch the PRNG")
    rep.rule("C04.C", "optimizer/** and inline/** never construct PRF / PermutationFromPRF / Random / RandomPermutation operations")
    rep.rule("C04.X", "the dangling-node pass skips a node only when it is neither an input nor needed by the output")
    tb = tables(facts)
    for k, v in tb.items():
        if not rep.anchor("C04.F", "graphs::Operation::" + k, v):
            return
    rep.tables["operation_predicates"] = {k: {n: V.fmt(x) for n, x in v.items()} for k, v in tb.items()}
    vs = V.variants(facts)
    rep.floor("C04.F", "Operation variants", len(vs), 50)
    prot = protected_variants(tb)
    rep.floor("C04.F", "randomizing/PRF/input variants", len(prot), 6)
    vidx = {n: i for i, n in vs}

    fold_and_merge_guards(facts, rep, tb, vidx, prot)
    uniquify(facts, rep, tb, vs, vidx)
    pipeline(facts, rep)
    randomizing_complete(facts, rep, tb, vs, vidx)
    constructors(facts, rep)
    dangling(facts, rep, vs, vidx, tb)


def _is_map_get(c):
    return bool(c) and c.startswith("std::collections::HashMap") and c.endswith("::get")


def _signature_lookups(facts, it, res, dd):
    """executable look-ups of the signature table: HashMap::get called directly, or inside a closure handed to an Option
    combinator (`key.as_ref().and_then(|k| table.get(k))`) whose receiver is not certainly None"""
    out = [b for b, c in res.reachable_calls() if _is_map_get(c)]
    # look-ups wrapped in a same-file helper (`state.find_duplicate(&node_key)`): executable unless the key handed in is None
    for b, c in res.reachable_calls():
        hb = facts.bodies.get(c or "")
        if hb is None or hb.kind == "closure" or hb.file != dd.file or hb is dd:
            continue
        fam = [hb] + list(facts.closures_of(hb.id))
        if not any(_is_map_get(callee_name(ct)) for fb in fam for _, ct in fb.calls()):
            continue
        vals = [it.eval_operand(res.env, a) for a in dd.term(b)["args"]]
        if any(v not in (V.TOP, V.BOT) and v[0] == "enum" and v[3] == "None" for v in vals):
            continue
        out.append(b)
    for b, c in res.reachable_calls():
        if not c or not c.startswith("std::option::Option") or not c.endswith(("::and_then", "::map", "::map_or", "::map_or_else",
                                                                                "::is_some_and", "::filter", "::inspect")):
            continue
        t = dd.term(b)
        recv = it.eval_operand(res.env, t["args"][0])
        if recv not in (V.TOP, V.BOT) and recv[0] == "enum" and recv[3] == "None":
            continue
        for a in t["args"][1:]:
            if a[0] == "k":
                continue
            cname = dd.local_ty(a[1][0])
            for cb in facts.closures_of(dd.id):
                if any(_is_map_get(callee_name(ct)) for _, ct in cb.calls()) and \
                        ("closure@%s:%d:" % (cb.file, cb.line)) in cname:
                    out.append(b)
    return out


def fold_and_merge_guards(facts, rep, tb, vidx, prot):
    """C04.F / C04.D for the given protected variants (shared with C06 for the variants whose evaluation draws randomness)"""
    # ---------------------------------------------------------------- C04.F
    for name, why in prot:
        v = tb["is_const_optimizable"][name]
        rep.ob("C04.F", "is_const_optimizable(%s)" % name, is_false(v) or is_err(v),
               "is_const_optimizable(%s) = %s for a %s operation%s" % (
                   name, V.fmt(v), why, "" if (is_false(v) or is_err(v)) else
                   ": the constant optimizer replaces such a node by a Constant when its dependencies are constants"),
               facts.body("graphs::Operation::is_const_optimizable").loc())
    co = facts.body("optimizer::constant_optimizer::optimize_graph_constants")
    if rep.anchor("C04.F", "optimize_graph_constants", co):
        for name, why in prot:
            it = V.Interp(facts, vidx[name])
            res = it.run(co)
            calls = res.reachable_calls()
            folds = [c for b, c in calls if c and c.endswith("Evaluator::evaluate_node")]
            keeps = [c for b, c in calls if c and (c.endswith("Graph::add_node_with_type") or c in copy_helpers(facts))]
            rep.ob("C04.F", "optimize_graph_constants|%s" % name, not folds and bool(keeps),
                   "under Operation::%s the folding call evaluate_node is %s and add_node_with_type is %s"
                   % (name, "REACHABLE" if folds else "unreachable", "reached" if keeps else "NOT reached"), co.loc())
        # sanity (positive example): an ordinary operation can be folded
        it = V.Interp(facts, vidx["Add"])
        res = it.run(co)
        rep.ob("C04.F", "optimize_graph_constants|positive:Add",
               any(c and c.endswith("Evaluator::evaluate_node") for b, c in res.reachable_calls()),
               "positive control: under Operation::Add the folding call is reachable (rule can fire)", co.loc())

    # ---------------------------------------------------------------- C04.D
    nk = facts.body("optimizer::duplicates_optimizer::NodeKey::new")
    if rep.anchor("C04.D", "NodeKey::new", nk):
        for name, why in prot:
            it = V.Interp(facts, vidx[name])
            res = it.run(nk)
            r = res.ret
            ok = r not in (V.TOP, V.BOT) and all(
                (a[0] == "enum" and a[3] == "Err") or (a[0] == "enum" and a[3] == "Ok" and a[4] and a[4][0][0] == "enum"
                                                       and a[4][0][3] == "None") for a in V.alternatives(r))
            rep.ob("C04.D", "NodeKey::new(%s)" % name, ok,
                   "NodeKey::new for a %s operation (%s) returns %s%s" % (
                       why, name, V.fmt(r), "" if ok else ": two such nodes with equal dependencies would be merged"),
                   nk.loc())
        it = V.Interp(facts, vidx["Add"])
        r = it.run(nk).ret
        rep.ob("C04.D", "NodeKey::new|positive:Add", any(a[0] == "enum" and a[3] == "Ok" and a[4] and a[4][0][0] == "enum"
               and a[4][0][3] == "Some" for a in V.alternatives(r)), "positive control: NodeKey::new(Add) = %s" % V.fmt(r), nk.loc())
    dd = facts.body("optimizer::duplicates_optimizer::optimize_graph_duplicates")
    if rep.anchor("C04.D", "optimize_graph_duplicates", dd):
        def nodekey_model(interp, body, bb, t, args):
            return interp.run_callee(nk, [V.SUBJ, V.TOP])
        for name, why in prot:
            it = V.Interp(facts, vidx[name], call_models={"optimizer::duplicates_optimizer::NodeKey::new": nodekey_model})
            res = it.run(dd)
            calls = res.reachable_calls()
            lookups = _signature_lookups(facts, it, res, dd)
            keeps = [c for b, c in calls if c and (c.endswith("Graph::add_node_with_type") or c in copy_helpers(facts))]
            rep.ob("C04.D", "optimize_graph_duplicates|%s" % name, not lookups and bool(keeps),
                   "under Operation::%s the signature lookup is %s and add_node_with_type is %s"
                   % (name, "REACHABLE" if lookups else "unreachable", "reached" if keeps else "NOT reached"), dd.loc())
        it = V.Interp(facts, vidx["Add"], call_models={"optimizer::duplicates_optimizer::NodeKey::new": nodekey_model})
        res = it.run(dd)
        rep.ob("C04.D", "optimize_graph_duplicates|positive:Add",
               bool(_signature_lookups(facts, it, res, dd)),
               "positive control: under Operation::Add the signature lookup is reachable", dd.loc())


# -------------------------------------------------------------------- C04.U
def _closure_counter(facts, rep, u, fl, cb, ub, loops):
    """counter discipline when the renumbering lives in a closure that captures the counter by &mut:
    the parent owns the counter (one constant initialisation outside the loops, no other write), the closure's writes to the
    captured counter are `+= 1` only, an increment dominates update_prf_id, and the closure is called inside the node loop"""
    cfl = Flow(facts, cb)
    t = cb.term(ub)
    idop = t["args"][1]
    ups = {o[1] for o in cfl.origins(idop, (ub, None)) if o[0] == "upvar"} if idop[0] != "k" else set()
    if idop[0] == "k" or len(ups) != 1 or any(o[0] not in ("upvar", "bin") for o in cfl.origins(idop, (ub, None))):
        rep.fail("C04.U", "counter", "update_prf_id inside a closure is not given a captured counter", cb.loc(ub))
        return
    k = ups.pop()

    def is_up(place_local, at):
        return any(o[0] == "upvar" and o[1] == k for o in cfl.origins(["c", [place_local]], at))
    incs, others = [], []
    for bb, j, place, rv in cb.assigns():
        if cb.is_cleanup(bb) or len(place) != 2 or place[1] != "*" or not is_up(place[0], (bb, j)):
            continue
        good = False
        if rv[0] == "use" and rv[1][0] != "k" and len(rv[1][1]) == 2:
            tds = cfl.defs_of.get(rv[1][1][0], [])
            if len(tds) == 1:
                _, tb_, tj = cfl.defs[tds[0]]
                if tj is not None:
                    trv = cb.stmts(tb_)[tj][2]
                    if trv[0] == "bin" and trv[1] in ("AddWithOverflow", "Add", "AddUnchecked") and trv[3][0] == "k" and trv[3][4] == "1" \
                            and trv[2][0] != "k" and len(trv[2][1]) == 2 and trv[2][1][1] == "*" and is_up(trv[2][1][0], (tb_, tj)):
                        good = True
        (incs if good else others).append(bb)
    site = [(bb, j, rv) for bb, j, place, rv in u.assigns() if rv[0] == "agg" and rv[1].get("k") == "closure" and rv[1].get("def") == cb.id]
    ctr = None
    if len(site) == 1 and k < len(site[0][2][2]) and site[0][2][2][k][0] != "k":
        ctr = fl.root_of(site[0][2][2][k][1][0])
    if ctr is None:
        rep.fail("C04.U", "counter", "the counter captured by the renumbering closure could not be located", cb.loc(ub))
        return
    name = u.var_name(ctr) or ("_%d" % ctr)
    inits, pothers = [], []
    for di in fl.defs_of.get(ctr, []):
        l, bb, j = fl.defs[di]
        if bb >= 0 and j is not None and u.stmts(bb)[j][2][0] == "use" and u.stmts(bb)[j][2][1][0] == "k":
            inits.append(bb)
        else:
            pothers.append(bb)
    in_loop = lambda bb: any(bb in blocks for _, blocks in loops)
    rep.ob("C04.U", "counter|single-init", len(inits) == 1 and not in_loop(inits[0]),
           "counter `%s` (captured by the renumbering closure) has %d constant initialisation(s) outside the loops" % (name, len(inits)),
           u.loc(inits[0]) if inits else u.loc())
    rep.ob("C04.U", "counter|only-increments", not others and not pothers and len(incs) >= 1,
           "all other writes of `%s` are `+= 1` inside the closure (%d increment(s); other writes: closure %s, function %s)" % (
               name, len(incs), others, pothers), cb.loc())
    ok = any(C.dominates(cb, i, ub) for i in incs)
    calls_in_loop = [bb for bb, t2 in u.calls() if callee_name(t2) == cb.id and in_loop(bb) and not u.is_cleanup(bb)]
    rep.ob("C04.U", "counter|increment-dominates-use", ok and bool(calls_in_loop),
           "inside the renumbering closure an increment of `%s` dominates update_prf_id, and the closure is called in the node loop" % name
           if ok and calls_in_loop else
           "no increment of `%s` dominates update_prf_id in the renumbering closure (or it is not called per node): two PRF nodes can "
           "receive the same counter" % name, cb.loc(ub))
    rep.ob("C04.U", "counter|id-operand", True, "the id operand of update_prf_id is the captured counter `%s`" % name, cb.loc(ub))


def _struct_counter(facts, rep, u, m, ub):
    """counter discipline when the counter is a field of a small struct and the renumbering a method of it
    (`struct PrfIdCounter { last_id }`, `fn renumber(&mut self, op)`): inside the method the id operand is `self.field`, the
    only write to the field is `+= 1` and it dominates update_prf_id; elsewhere in the crate the field is written only by a
    constructor that stores a constant; the object is constructed outside all loops of uniquify_prf_id (one counter for all
    graphs) and the method is reached from a loop"""
    from ..fields import field_accesses
    t = m.term(ub)
    idop = t["args"][1]
    if idop[0] == "k":
        rep.fail("C04.U", "counter", "update_prf_id is given the constant %s" % idop[2], m.loc(ub))
        return
    mfl = Flow(facts, m)
    ors = mfl.origins(idop, (ub, None))
    fields_ = {o[2][0] for o in ors if o[0] == "param" and o[1] == 1 and o[2]}
    if len(fields_) != 1 or any(o[0] not in ("param", "bin") for o in ors):
        rep._unjudged("C04.U", "counter", "update_prf_id inside %s is not given a field of self" % m.id.split("::")[-1])
        return
    fname = fields_.pop()
    adt = m.local_adt(1) if hasattr(m, "local_adt") else None
    incs, others = [], []
    for bb, j, place, rv in m.assigns():
        if m.is_cleanup(bb) or place[0] != 1 or not any(field_name(p_) == fname for p_ in place[1:]):
            continue
        good = False
        if rv[0] == "use" and rv[1][0] != "k" and len(rv[1][1]) == 2:
            tds = mfl.defs_of.get(rv[1][1][0], [])
            if len(tds) == 1:
                _, tb_, tj = mfl.defs[tds[0]]
                if tj is not None:
                    trv = m.stmts(tb_)[tj][2]
                    if trv[0] == "bin" and trv[1] in ("AddWithOverflow", "Add", "AddUnchecked") and trv[3][0] == "k" and trv[3][4] == "1" \
                            and trv[2][0] != "k" and trv[2][1][0] == 1 and any(field_name(p_) == fname for p_ in trv[2][1][1:]):
                        good = True
        (incs if good else others).append(bb)
    # writes to the field anywhere else in the crate: only constant initialisation in an aggregate (constructor)
    ext_writes, ctor_ok = [], False
    for n_, ob in facts.bodies.items():
        if ob.crate != m.crate or ob is m or ob.file != m.file:
            continue
        for (a_, f_, k_) in field_accesses(facts, ob):
            if f_ == fname and k_ == "w" and (adt is None or a_ == adt):
                ext_writes.append(n_)
        for bb, j, place, rv in ob.assigns():
            if rv[0] == "agg" and rv[1].get("adt") == adt and fname in (rv[1].get("fields") or []):
                op_ = rv[2][rv[1]["fields"].index(fname)]
                if op_[0] == "k":
                    ctor_ok = True
                else:
                    ext_writes.append(n_ + " (non-constant initialiser)")
    name = "%s.%s" % ((adt or "?").split("::")[-1], fname)
    rep.ob("C04.U", "counter|single-init", ctor_ok and not ext_writes,
           "counter `%s` is initialised with a constant by its constructor and written nowhere else outside %s" % (name, m.id.split("::")[-1])
           if ctor_ok and not ext_writes else "counter `%s` is also written in %s" % (name, sorted(set(ext_writes))), m.loc())
    rep.ob("C04.U", "counter|only-increments", not others and len(incs) >= 1,
           "all writes of `%s` in %s are `+= 1` (%d increment(s), other writes at bb%s)" % (name, m.id.split("::")[-1], len(incs), others), m.loc())
    ok = any(C.dominates(m, i, ub) for i in incs)
    # one object for the whole context: constructed in uniquify_prf_id outside its loops; the method is called from a loop
    loops_u = C.loops(u)
    ctor_calls = [bb for bb, t2 in u.calls() if not u.is_cleanup(bb) and u.local_ty(t2["dest"][0] if t2.get("dest") else 0) == adt]
    ctor_outside = bool(ctor_calls) and not any(bb in blocks for bb in ctor_calls for _, blocks in loops_u)
    in_loop_call = False
    for n_, ob in facts.bodies.items():
        if ob.file != m.file or ob.crate != m.crate:
            continue
        lo = C.loops(ob)
        for bb, t2 in ob.calls():
            if callee_name(t2) == m.id and any(bb in blocks for _, blocks in lo):
                in_loop_call = True
    rep.ob("C04.U", "counter|increment-dominates-use", ok and ctor_outside and in_loop_call,
           "in %s an increment of `%s` dominates update_prf_id; one counter object is created outside the loops of uniquify_prf_id "
           "and the method is called per node" % (m.id.split("::")[-1], name) if ok and ctor_outside and in_loop_call else
           "counter `%s`: increment dominates use=%s, single object outside loops=%s, called per node=%s: two PRF nodes can receive "
           "the same counter" % (name, ok, ctor_outside, in_loop_call), m.loc(ub))
    rep.ob("C04.U", "counter|id-operand", True, "the id operand of update_prf_id is the counter field `%s`" % name, m.loc(ub))


def uniquify(facts, rep, tb, vs, vidx):
    u = facts.body("mpc::mpc_compiler::uniquify_prf_id")
    if not rep.anchor("C04.U", "mpc::mpc_compiler::uniquify_prf_id", u):
        return
    fl = Flow(facts, u)
    upd = [bb for bb, t in u.calls() if callee_name(t) == "graphs::Operation::update_prf_id"]
    cl_upd = [(cb, bb) for cb in facts.closures_of(u.id) for bb, t in cb.calls()
              if callee_name(t) == "graphs::Operation::update_prf_id" and not cb.is_cleanup(bb)]
    adds = [bb for bb, t in u.calls() if callee_name(t) == "graphs::Graph::add_node_with_type"]
    skip_copy = False
    if not upd and not cl_upd:
        # renumbering in a method of a counter struct, reached from uniquify_prf_id through same-file helpers
        from .common import same_file_family
        seen_ = {u.id}
        work_ = [u]
        meth = []
        while work_:
            x_ = work_.pop()
            for _, t_ in x_.calls():
                h_ = facts.bodies.get(callee_name(t_) or "")
                if h_ is None or h_.id in seen_ or h_.kind == "closure" or h_.file != u.file:
                    continue
                seen_.add(h_.id)
                ups_ = [bb for bb, t2 in h_.calls() if callee_name(t2) == "graphs::Operation::update_prf_id" and not h_.is_cleanup(bb)]
                if ups_ and h_.argc >= 1 and h_.local_ty(1).startswith("&mut "):
                    meth.append((h_, ups_[0]))
                else:
                    work_.append(h_)
        if len(meth) == 1:
            _struct_counter(facts, rep, u, meth[0][0], meth[0][1])
            rep._unjudged("C04.U", "copy", "the per-variant copy clause is not evaluated when the node loop lives in a helper of uniquify_prf_id")
            skip_copy = True
    if not skip_copy and not (rep.anchor("C04.U", "update_prf_id call in uniquify_prf_id", upd or cl_upd)
                              and rep.anchor("C04.U", "add_node_with_type call in uniquify_prf_id", adds)):
        return
    loops = C.loops(u)
    for cb, cbb in cl_upd:
        _closure_counter(facts, rep, u, fl, cb, cbb, loops)
    def innermost(bb):
        best = None
        for h, blocks in loops:
            if bb in blocks and (best is None or len(blocks) < len(best[1])):
                best = (h, blocks)
        return best
    for ub in upd:
        t = u.term(ub)
        idop = t["args"][1]
        if idop[0] == "k":
            rep.fail("C04.U", "counter", "update_prf_id is given the constant %s" % idop[2], u.loc(ub))
            continue
        ctr = fl.root_of(idop[1][0])
        name = u.var_name(ctr) or ("_%d" % ctr)
        inits, incs, others = [], [], []
        for di in fl.defs_of.get(ctr, []):
            l, bb, j = fl.defs[di]
            if bb < 0:
                others.append(("param", bb))
                continue
            if j is None:
                others.append(("call", bb))
                continue
            rv = u.stmts(bb)[j][2]
            if rv[0] == "use" and rv[1][0] == "k":
                inits.append(bb)
            elif rv[0] == "use" and rv[1][0] in ("c", "m") and len(rv[1][1]) == 2:
                # `ctr = move (_t.0)` with `_t = AddWithOverflow(ctr, const 1)`
                tl = rv[1][1][0]
                tds = fl.defs_of.get(tl, [])
                good = False
                if len(tds) == 1:
                    _, tb_, tj = fl.defs[tds[0]]
                    if tj is not None:
                        trv = u.stmts(tb_)[tj][2]
                        if trv[0] == "bin" and trv[1] in ("AddWithOverflow", "Add", "AddUnchecked"):
                            a, b2 = trv[2], trv[3]
                            if a[0] != "k" and a[1] == [ctr] and b2[0] == "k" and b2[4] == "1":
                                good = True
                (incs if good else others).append(bb if good else ("assign", bb))
            elif rv[0] == "bin" and rv[1] in ("Add", "AddUnchecked") and rv[2][0] != "k" and rv[2][1] == [ctr] \
                    and rv[3][0] == "k" and rv[3][4] == "1":
                incs.append(bb)
            else:
                others.append(("assign", bb))
        in_loop = lambda bb: any(bb in blocks for _, blocks in loops)
        rep.ob("C04.U", "counter|single-init", len(inits) == 1 and not in_loop(inits[0]),
               "counter `%s` has %d constant initialisation(s)%s" % (
                   name, len(inits), "" if (len(inits) == 1 and not in_loop(inits[0])) else
                   " (must be exactly one, outside both loops: a reset inside a loop repeats counters)"), u.loc(inits[0]) if inits else u.loc())
        rep.ob("C04.U", "counter|only-increments", not others and len(incs) >= 1,
               "all other writes of `%s` are `+= 1` (%d increment(s), other writes: %s)" % (name, len(incs), others), u.loc())
        lp = innermost(ub)
        ok = lp is not None and any(C.dominates(u, i, ub) and i in lp[1] for i in incs)
        rep.ob("C04.U", "counter|increment-dominates-use", ok,
               "an increment of `%s` inside the node loop dominates the update_prf_id call (every PRF node gets a new value)"
               if ok else "no increment of `%s` in the same loop iteration dominates update_prf_id: two PRF nodes can receive the same counter" % name,
               u.loc(ub))
        # between the increment and the use the counter is not otherwise consumed: id operand is the counter itself
        rep.ob("C04.U", "counter|id-operand", fl.root_of(idop[1][0]) == ctr, "the id operand of update_prf_id is the counter `%s`" % name, u.loc(ub))
    # per-variant: what operation reaches add_node_with_type
    prf = [n for n in tb["is_prf_operation"] if is_true(tb["is_prf_operation"][n])]
    for idx, name in (vs if not skip_copy else []):
        it = V.Interp(facts, idx)
        res = it.run(u)
        for ab in adds:
            if ab not in res.blocks:
                rep.fail("C04.U", "copy|%s" % name, "add_node_with_type unreachable under Operation::%s" % name, u.loc(ab))
                continue
            opv = it.eval_operand(res.env, u.term(ab)["args"][3])
            upd_exec = any(b in res.blocks for b in upd)
            for cb, cbb in cl_upd:
                if any(callee_name(u.term(x)) == cb.id for x in res.blocks if u.term(x)["k"] == "call"):
                    rc = V.Interp(facts, idx).run(cb, {2: V.SUBJ})
                    upd_exec = upd_exec or cbb in rc.blocks
            if name in prf:
                ok = upd_exec and opv[0] == "enum" and opv[1] == V.OPERATION and opv[3] == name
                msg = "PRF variant %s: node is re-created with %s (update_prf_id %s)" % (
                    name, V.fmt(opv), "reached" if upd_exec else "NOT reached")
            else:
                ok = (not upd_exec) and opv == V.SUBJ
                msg = "non-PRF variant %s: operation copied %s (update_prf_id %s)" % (
                    name, "unchanged" if opv == V.SUBJ else "as " + V.fmt(opv), "reached" if upd_exec else "not reached")
            rep.ob("C04.U", "copy|%s" % name, ok, msg, u.loc(ab))
    # update_prf_id: Ok exactly for PRF variants, same variant, id = parameter
    for name, v in tb["update_prf_id"].items():
        if name in prf:
            ok = v[0] == "enum" and v[3] == "Ok" and v[4] and v[4][0][0] == "enum" and v[4][0][3] == name
        else:
            ok = is_err(v)
        rep.ob("C04.U", "update_prf_id(%s)" % name, ok, "update_prf_id(%s) = %s" % (name, V.fmt(v)))
    ub = facts.body("graphs::Operation::update_prf_id")
    fl2 = Flow(facts, ub)
    for bb, j, place, rv in ub.assigns():
        if rv[0] == "agg" and rv[1].get("adt") == V.OPERATION and rv[1]["vn"] in PRF_FAMILY:
            ors = fl2.origins(rv[2][0], (bb, j))
            rep.ob("C04.U", "update_prf_id|id-field:%s" % rv[1]["vn"], ors == frozenset([("param", 2, ())]),
                   "the counter field of the rebuilt %s comes from the prf_id parameter (%s)" % (rv[1]["vn"], sorted(ors)), ub.loc(bb))


# -------------------------------------------------------------------- C04.P
def pipeline(facts, rep):
    extra = {"custom_ops::MappedContext::get_context": [0]}
    p = facts.body("mpc::mpc_compiler::prepare_for_mpc_evaluation")
    if rep.anchor("C04.P", "prepare_for_mpc_evaluation", p):
        fl = Flow(facts, p, extra_transparent=extra)
        def site(name):
            bs = [bb for bb, t in p.calls() if callee_name(t) == name]
            return bs
        order = ["mpc::mpc_compiler::compile_to_mpc", "custom_ops::run_instantiation_pass",
                 "inline::inline_ops::inline_operations", "mpc::mpc_compiler::uniquify_prf_id"]
        sites = {n: site(n) for n in order}
        for n in order:
            rep.ob("C04.P", "prepare|one-call:%s" % n.split("::")[-1], len(sites[n]) == 1,
                   "%s is called %d time(s) in prepare_for_mpc_evaluation" % (n, len(sites[n])), p.loc())
        if all(len(sites[n]) == 1 for n in order):
            for a, b in zip(order, order[1:]):
                bb = sites[b][0]
                ors = fl.origins(p.term(bb)["args"][0], (bb, None))
                ok = ("call", sites[a][0], a) in ors
                rep.ob("C04.P", "prepare|%s<-%s" % (b.split("::")[-1], a.split("::")[-1]), ok,
                       "the context given to %s is the result of %s (origins %s)" % (
                           b.split("::")[-1], a.split("::")[-1], sorted(o[2] for o in ors if o[0] == "call")), p.loc(bb))
            ub = sites[order[3]][0]
            after = C.reachable_after(p, ub)
            bad = [callee_name(p.term(x)) for x in after if p.term(x)["k"] == "call" and not p.is_cleanup(x)
                   and callee_name(p.term(x)) in (order[1], order[2], order[0])]
            rep.ob("C04.P", "prepare|nothing-after-uniquify", not bad,
                   "no instantiation/inlining/compilation call is reachable after uniquify_prf_id (%s)" % bad, p.loc(ub))
            # the returned context is the uniquified one
            rets = [bb for bb, t in p.calls() if (callee_name(t) or "").endswith("MappedContext::new_with_mappings")]
            if rep.anchor("C04.P", "MappedContext::new_with_mappings in prepare_for_mpc_evaluation", rets):
                ors = fl.origins(p.term(rets[0])["args"][1], (rets[0], None))
                rep.ob("C04.P", "prepare|result-is-uniquified", ("call", ub, order[3]) in ors and
                       not any(o[0] == "call" and o[2] in order[:3] for o in ors),
                       "the returned context derives from uniquify_prf_id only (%s)" % sorted(o[2] for o in ors if o[0] == "call"),
                       p.loc(rets[0]))
    c = facts.body("mpc::mpc_compiler::compile_context")
    if rep.anchor("C04.P", "compile_context", c):
        fl = Flow(facts, c, extra_transparent=extra)
        prep = [bb for bb, t in c.calls() if callee_name(t) == "mpc::mpc_compiler::prepare_for_mpc_evaluation"]
        if rep.anchor("C04.P", "prepare_for_mpc_evaluation call in compile_context", prep):
            after = C.reachable_after(c, prep[0])
            dup = ("inline::inline_ops::inline_operations", "custom_ops::run_instantiation_pass",
                   "mpc::mpc_compiler::prepare_context", "mpc::mpc_compiler::compile_to_mpc",
                   "mpc::mpc_compiler::prepare_for_mpc_evaluation")
            bad = [callee_name(c.term(x)) for x in after if c.term(x)["k"] == "call" and not c.is_cleanup(x)
                   and callee_name(c.term(x)) in dup]
            rep.ob("C04.P", "compile_context|nothing-duplicating-after", not bad,
                   "after prepare_for_mpc_evaluation only non-duplicating passes run (%s)" % bad, c.loc(prep[0]))
            opt = [bb for bb in after if c.term(bb)["k"] == "call" and (callee_name(c.term(bb)) or "").endswith("optimize::optimize_context")]
            if rep.anchor("C04.P", "optimize_context after prepare_for_mpc_evaluation", opt):
                ors = fl.origins(c.term(opt[0])["args"][0], (opt[0], None))
                rep.ob("C04.P", "compile_context|optimize<-prepare", ("call", prep[0], "mpc::mpc_compiler::prepare_for_mpc_evaluation") in ors,
                       "the final optimisation runs on the uniquified compiled context (%s)" % sorted(o[2] for o in ors if o[0] == "call"), c.loc(opt[0]))


# -------------------------------------------------------------------- C04.R
def touches_prng(facts, body, blocks, depth=0, seen=None):
    """does any of `blocks` of body read/borrow field `prng` of self, directly or through a self-method"""
    seen = seen if seen is not None else set()
    for bb in blocks:
        if body.is_cleanup(bb):
            continue
        places = []
        for s in body.stmts(bb):
            if s[0] == "=":
                rv = s[2]
                if rv[0] in ("ref", "raw"):
                    places.append(rv[2])
                elif rv[0] == "use" and rv[1][0] != "k":
                    places.append(rv[1][1])
        t = body.term(bb)
        if t["k"] == "call":
            for a in t["args"]:
                if a[0] != "k":
                    places.append(a[1])
        for p in places:
            if p[0] == 1 and any(field_name(x) == "prng" for x in p[1:]):
                return True
        if t["k"] == "call" and depth < 2:
            cn = callee_name(t)
            cb = facts.bodies.get(cn)
            if cb is not None and cb.impl and cb.impl.get("adt") == "evaluators::simple_evaluator::SimpleEvaluator" \
                    and cn not in seen:
                # receiver must be self
                if t["args"] and t["args"][0][0] != "k":
                    seen.add(cn)
                    if touches_prng(facts, cb, range(cb.nblocks()), depth + 1, seen):
                        return True
    return False


def prng_variants(facts, vs):
    """variants whose SimpleEvaluator arm draws from the evaluator's PRNG (ground truth read from the evaluator)"""
    ev = None
    for n, b in facts.bodies.items():
        if n.endswith("::evaluate_node") and "SimpleEvaluator" in n and b.impl and b.impl.get("trait"):
            ev = b
    if ev is None:
        return None
    out = []
    for idx, name in vs:
        res = V.Interp(facts, idx).run(ev)
        if touches_prng(facts, ev, sorted(res.normal_blocks())):
            out.append(name)
    return out


def randomizing_complete(facts, rep, tb, vs, vidx):
    ev = None
    for n, b in facts.bodies.items():
        if n.endswith("::evaluate_node") and "SimpleEvaluator" in n and b.impl and b.impl.get("trait"):
            ev = b
    if not rep.anchor("C04.R", "<SimpleEvaluator as Evaluator>::evaluate_node", ev):
        return
    n_rand = 0
    for idx, name in vs:
        it = V.Interp(facts, idx)
        res = it.run(ev)
        uses = touches_prng(facts, ev, sorted(res.normal_blocks()))
        rnd = tb["is_randomizing"][name]
        if is_err(rnd):
            rep.ob("C04.R", name, not uses, "%s: status undefined (calls/custom), evaluator arm %s the PRNG" % (
                name, "uses" if uses else "does not use"), ev.loc())
            continue
        want = is_true(rnd)
        n_rand += 1 if uses else 0
        rep.ob("C04.R", name, uses == want,
               "%s: evaluator arm %s the evaluator's PRNG, is_randomizing = %s%s" % (
                   name, "uses" if uses else "does not use", V.fmt(rnd),
                   "" if uses == want else ": the optimizer's table disagrees with what evaluation does "
                                           "(a randomizing operation not listed can be folded or merged)"), ev.loc())
    rep.floor("C04.R", "evaluator arms using the PRNG", n_rand, 3)


# -------------------------------------------------------------------- C04.C
def constructors(facts, rep):
    n = 0
    sites = []
    for name, b in facts.bodies.items():
        if b.crate != "ciphercore_base":
            continue
        for bb, j, place, rv in b.assigns():
            if rv[0] == "agg" and rv[1].get("adt") == V.OPERATION and rv[1]["vn"] in RANDOM_CTORS:
                if b.impl and b.impl.get("trait") and ("Clone" in b.impl["trait"] or "Deserialize" in b.impl["trait"]
                                                       or "Visitor" in b.impl["trait"]):
                    continue
                n += 1
                sites.append("%s:%s" % (name, rv[1]["vn"]))
                bad = ("/optimizer/" in b.file) or ("/inline/" in b.file) or name == "mpc::mpc_compiler::uniquify_prf_id"
                rep.ob("C04.C", "%s|%s" % (name, rv[1]["vn"]), not bad,
                       "Operation::%s constructed in %s%s" % (rv[1]["vn"], name,
                       ": passes that run after the renumbering must only forward existing operations" if bad else ""), b.loc(bb))
    rep.tables["random_operation_constructors"] = sites
    rep.floor("C04.C", "constructors of PRF/Random operations", n, 5)


# -------------------------------------------------------------------- C04.X
def dangling(facts, rep, vs, vidx, tb):
    d_root = facts.body("optimizer::dangling_nodes_optimizer::optimize_graph_dangling_nodes")
    if not rep.anchor("C04.X", "optimizer::dangling_nodes_optimizer::optimize_graph_dangling_nodes", d_root):
        return
    d = pass_body(facts, d_root.id)
    fl = Flow(facts, d)
    adds = [bb for bb, t in d.calls() if is_add_call(facts, t)]
    if not rep.anchor("C04.X", "add_node_with_type in dangling pass", adds):
        return
    # under "useful_nodes.contains(node) == true" every iteration reaches add_node_with_type or an error exit
    contains = [bb for bb, t in d.calls() if (callee_name(t) or "").endswith("::contains")
                or (callee_name(t) or "").endswith("::contains")]
    lp = None
    for h, blocks in C.loops(d):
        if adds[0] in blocks and (lp is None or len(blocks) < len(lp[1])):
            lp = (h, blocks)
    if not rep.anchor("C04.X", "node loop of the dangling pass", lp):
        return
    h, blocks = lp
    in_loop_contains = [c for c in contains if c in blocks]
    sites = {(d.id, c): ("b", True) for c in in_loop_contains}
    # the guard may live in a predicate helper called from the loop (`fn must_keep_node(..) -> bool`)
    for bb, t in d.calls():
        hb = facts.bodies.get(callee_name(t) or "")
        if bb in blocks and hb is not None and hb.kind != "closure" and hb.local_ty(0) == "bool":
            for hbb, ht in hb.calls():
                if (callee_name(ht) or "").endswith("::contains") and not hb.is_cleanup(hbb):
                    sites[(hb.id, hbb)] = ("b", True)
    rep.ob("C04.X", "skip-guard", bool(sites),
           "the node loop consults useful_nodes.contains (%d site(s), helpers included)" % len(sites), d.loc(h))
    res_c = V.executable_under(facts, d, site_values=sites)
    rem = {(x, y) for x, y in C.edges(d) if (x, y) not in res_c.edges}
    # back edges = edges into header from inside the loop
    errs = C.error_exit_blocks(d)
    start = [s for s in d.succs(h) if s in blocks]
    reach = C.reachable(d, start, removed_edges=rem, removed_blocks=set(adds) | errs)
    skipping = h in reach
    rep.ob("C04.X", "useful-node-kept", not skipping,
           "when useful_nodes.contains(node) holds, an iteration cannot return to the loop head without add_node_with_type"
           if not skipping else "a useful node can be skipped: an iteration reaches the next one without add_node_with_type", d.loc(h))
    # useful_nodes is filled from the output node and dependencies of useful nodes only
    ins = []
    for fb in same_file_family(facts, d_root.id):
        ffl = fl if fb is d else Flow(facts, fb)
        for bb, t in fb.calls():
            cn_ = callee_name(t) or ""
            if "HashSet" in cn_ and cn_.endswith(("::insert", "::extend")) and not fb.is_cleanup(bb):
                ins.append((fb, ffl, bb))
    for k, (fb, ffl, bb) in enumerate(ins):
        ors = ffl.origins(fb.term(bb)["args"][1], (bb, None))
        names = sorted(o[2].split("::")[-1] for o in ors if o[0] == "call")
        ok = bool(ors) and all(o[0] == "call" and o[2] in ("graphs::Graph::get_output_node", "graphs::Node::get_node_dependencies")
                               for o in ors)
        rep.ob("C04.X", "useful-insert#%d" % k, ok, "useful_nodes.insert receives %s" % names, fb.loc(bb))
    rep.floor("C04.X", "useful_nodes.insert sites", len(ins), 2)
    # inputs are always kept: under variant Input no path skips
    it = V.Interp(facts, vidx["Input"])
    res = it.run(d)
    # with the Input variant, the `continue` edge must be non-executable: loop head not reachable from the iteration start avoiding adds
    ex_edges = res.edges
    removed = {(a, b) for a, b in C.edges(d) if (a, b) not in ex_edges}
    reach = C.reachable(d, start, removed_edges=removed, removed_blocks=set(adds) | errs)
    rep.ob("C04.X", "input-kept", h not in reach,
           "under Operation::Input no iteration skips the node (inputs are always copied)", d.loc(h))
