"""C17 — one clause: the multiplexer selects its second operand where the selector bit is 1 and its third where it is 0.
Decided for every input by an affine abstract interpretation (E8, analysis/selform.py) of the builder Mux::instantiate,
separately for the bit-typed and the arithmetic branch.  The adder, clip and long-division clauses are not decided."""
from ..flow import Flow
from ..facts import callee_name
from .. import vcai as V
from .. import selform as S

MUX = "<ops::multiplexer::Mux as custom_ops::CustomOperationBody>::instantiate"


def run(facts, rep, tier):
    rep.rule("C17.M", "selector-weighted combination: in every branch of Mux::instantiate the output node, read as an affine form "
                      "of the inputs for each value of the selector (coefficients mod 2 for bit operands), is exactly the "
                      "second argument for selector = 1 and exactly the third argument for selector = 0")
    b = facts.body(MUX)
    if not rep.anchor("C17.M", MUX, b):
        return
    fl = Flow(facts, b)
    outs = [bb for bb, t in b.calls() if callee_name(t) == "graphs::Node::set_as_output" and not b.is_cleanup(bb)]
    if not rep.anchor("C17.M", "set_as_output in Mux::instantiate", outs):
        return
    # the test that separates the bit-typed branch from the arithmetic one: ScalarType eq/ne against the constant BIT
    tests = []
    for bb, t in b.calls():
        d = t["f"].get("def") or ""
        if d not in ("std::cmp::PartialEq::eq", "std::cmp::PartialEq::ne") or b.is_cleanup(bb) or len(t["args"]) != 2:
            continue
        bits = [S.is_bit_const(b, fl, a, (bb, None)) for a in t["args"]]
        if bits.count(True) != 1:
            continue
        other = t["args"][1] if bits[0] else t["args"][0]
        if not any(o[0] == "call" and o[2] == "data_types::Type::get_scalar_type" for o in fl.origins(other, (bb, None))):
            continue
        tests.append((bb, d.endswith("::eq")))
    judged = 0
    regions = []   # (label, kind, live blocks)
    sep = None
    for tb, is_eq in tests:
        r_true = V.executable_under(facts, b, site_values={(b.id, tb): ("b", True)})
        r_false = V.executable_under(facts, b, site_values={(b.id, tb): ("b", False)})
        o_t = {o for o in outs if o in r_true.blocks}
        o_f = {o for o in outs if o in r_false.blocks}
        if o_t and o_f and not (o_t & o_f):
            sep = (tb, is_eq)
            regions = [("bit operands", "bit", r_true.blocks if is_eq else r_false.blocks),
                       ("arithmetic operands", "int", r_false.blocks if is_eq else r_true.blocks)]
    if sep is None:
        # a single formula for all operand types: analyse it under both kinds
        res = V.executable_under(facts, b)
        regions = [("bit operands", "bit", res.blocks), ("arithmetic operands", "int", res.blocks)]
        rep.note("C17.M: no scalar-type test separates the output sites; each output is analysed under both operand kinds")
    table = {}
    for label, kind, live in regions:
        sf = S.SelForms(facts, b, kind, live=set(live))
        if not rep.anchor("C17.M", "three inputs created in order (selector, second, third)", sf.inputs and len(sf.inputs) == 3):
            return
        for k, o in enumerate(o2 for o2 in outs if o2 in live):
            form = sf.of_operand(b.term(o)["args"][0], (o, None))
            table["%s#%d" % (label, k)] = S.fmt(form)
            if form == S.TOP:
                rep.note("C17.M: output of the %s branch is built with operations outside the affine domain; not judged" % label)
                continue
            judged += 1
            want = {1: {"in1": 1}, 0: {"in2": 1}}
            ok = all(form[f][1] == want[f] for f in (0, 1))
            rep.ob("C17.M", "Mux|%s" % label, ok,
                   "%s: %s" % (label, S.fmt(form)) if ok else
                   "%s: the output is [%s] but the documented multiplexer returns arg1 (second operand) where the selector is 1 "
                   "and arg2 (third operand) where it is 0" % (label, S.fmt(form)), b.loc(o))
    rep.tables["mux_selection_forms"] = table
    rep.analysed["mux_branches_judged"] = judged
