"""C12 — decoder layer: no panics on input, data-derived indices are bounds-checked, rebuild through
type inference, writer/reader/equality field agreement."""
import re
from ..flow import Flow
from ..facts import callee_name
from .. import cfg as C
from .. import callgraph as CG
from ..fields import field_accesses, fields_read_deep
from .. import vcai as V

# public graph-building API: robustness against arbitrary arguments is decided by C09/C11
API_STOP = {
    "graphs::create_context", "graphs::Context::create_graph", "graphs::Graph::add_node",
    "graphs::Graph::set_output_node", "graphs::Graph::finalize", "graphs::Context::set_main_graph",
    "graphs::Context::set_graph_name", "graphs::Context::set_node_name",
    "graphs::Context::add_graph_annotation", "graphs::Context::add_node_annotation",
    "graphs::Context::finalize",
}

# panic constructs that are infallible by construction: (function, callee-suffix) -> reason
ALLOW_PANIC = {
    ("graphs::WeakContext::upgrade", "::unwrap"):
        "upgrade of a graph's weak back-pointer while the decoder itself holds the strong Context (result_context)",
}

# ContextBody fields derived from the serialized ones (rebuilt by the API calls of the decoder)
DERIVED_CONTEXT_FIELDS = {
    "graphs_names_inverse": "inverse of graphs_names, rebuilt by set_graph_name",
    "nodes_names_inverse": "inverse of nodes_names, rebuilt by set_node_name",
    "type_checker": "type cache, rebuilt by add_node (type inference re-run)",
    "total_size_nodes": "size counter, recomputed by add_node",
}
DERIVED_GRAPH_FIELDS = {"id": "position in Context.graphs", "context": "back-pointer"}
DERIVED_NODE_FIELDS = {"id": "position in Graph.nodes", "graph": "back-pointer"}

UNWRAP_SUFFIX = ("::unwrap", "::expect", "::unwrap_err", "::expect_err", "::unwrap_unchecked")
PANIC_PAT = ("core::panicking::", "std::rt::begin_panic", "std::panicking::", "core::option::unwrap_failed",
             "core::result::unwrap_failed", "core::option::expect_failed", "core::panic")


def decoder_seeds(facts):
    seeds = []
    for n in facts.bodies:
        if n.endswith("::deserialize") and "Deserialize" in n:
            if "graphs::Context as" in n or "data_values::Value as" in n or "dyn custom_ops::CustomOperationBody" in n:
                seeds.append(n)
    return sorted(seeds)


def is_panic_construct(t):
    n = callee_name(t) or ""
    if (n.startswith(("std::option::Option", "std::result::Result", "core::option::Option", "core::result::Result"))
            and n.endswith(UNWRAP_SUFFIX)):
        return "unwrap/expect"
    if any(p in n for p in PANIC_PAT):
        return "panic"
    return None


def run(facts, rep, tier):
    rep.rule("C12.P", "no unwrap/expect/panic!/unchecked slice index on any path of the decoder layer (bodies reachable "
                      "from Context/Value/CustomOperation deserialize up to the public graph API), except the table of "
                      "infallible-by-construction sites")
    rep.rule("C12.I", "every Index::index in the decoder layer whose index derives from the deserialized struct is guarded by "
                      "a comparison of that same datum (same field and tuple position) against len() of a container of the same "
                      "element type, with the out-of-range outcome unable to reach the indexing")
    rep.rule("C12.A", "the decoder layer never calls add_node_with_type / add_node_internal directly: rebuilt nodes are type-inferred")
    rep.rule("C12.F", "writer, reader and deep equality agree on the field set; no hash-ordered field is serialized")
    seeds = decoder_seeds(facts)
    rep.floor("C12.P", "decoder seeds (Context, Value, typetag CustomOperationBody deserialize)", len(seeds), 3)
    layer = CG.reach(facts, seeds, stop=lambda n: n in API_STOP)
    rep.analysed["decoder_layer_bodies"] = len(layer)
    rep.tables["decoder_layer"] = sorted(layer)
    rep.tables["api_stop"] = sorted(API_STOP)
    rep.tables["allow_panic"] = {"%s|%s" % k: v for k, v in ALLOW_PANIC.items()}
    for need in ("graphs::SerializableContextBody::recover_original_context",
                 "graphs::SerializableContextBody::recover_original_graph",
                 "data_values::Value::from_serializable_value"):
        if need in facts.bodies:
            rep.anchor("C12.P", "%s|reached from the deserialize entry points" % need, need in layer)
        else:
            rep.anchor("C12.P", need, None)
    # ---------------- C12.P / C12.A
    ncalls = 0
    for name in sorted(layer):
        b = facts.bodies[name]
        ordn = {}
        for bb, t in b.calls():
            ncalls += 1
            cn = callee_name(t) or "<indirect>"
            kind = is_panic_construct(t)
            if kind and not b.is_cleanup(bb):
                o = ordn.get(cn, 0)
                ordn[cn] = o + 1
                allowed = None
                for (fn, suf), why in ALLOW_PANIC.items():
                    if fn == name and cn.endswith(suf):
                        allowed = why
                key = "%s|%s#%d" % (name, cn, o)
                rep.ob("C12.P", key, allowed is not None,
                       ("allowed: " + allowed) if allowed else
                       "%s on a decoder path: malformed input reaching it panics instead of returning Err (chain: %s)"
                       % (cn, " -> ".join(CG.chain(layer, name))), b.loc(bb))
            if cn.endswith("::add_node_with_type") or cn.endswith("::add_node_internal"):
                rep.fail("C12.A", "%s|%s" % (name, cn),
                         "decoder layer calls %s: a deserialized node would bypass type inference" % cn, b.loc(bb))
        for bb in range(b.nblocks()):
            t = b.term(bb)
            if t["k"] == "assert" and not b.is_cleanup(bb) and t["msg"] in ("bounds", "divzero", "remzero"):
                rep.fail("C12.P", "%s|assert:%s" % (name, t["msg"]),
                         "compiler-inserted %s check on a decoder path (panics on failure)" % t["msg"], b.loc(bb))
    rep.ob("C12.A", "layer", True, "no typed node creation among %d call sites of %d decoder bodies" % (ncalls, len(layer)))
    rep.ob("C12.P", "layer-scan", True, "%d call sites in %d decoder bodies scanned for panic constructs" % (ncalls, len(layer)))
    rep.analysed["decoder_layer_call_sites"] = ncalls
    # ---------------- C12.I
    nidx = 0
    for name in sorted(layer):
        b = facts.bodies[name]
        idx_calls = [(bb, t) for bb, t in b.calls() if (callee_name(t) or "").endswith(("::index", "::index_mut"))
                     and "ops::Index" in (t["f"].get("def") or "") or (callee_name(t) or "").endswith("::get_unchecked")]
        if not idx_calls:
            continue
        fl = Flow(facts, b)
        guards = collect_guards(facts, b, fl)
        ordn = {}
        for bb, t in idx_calls:
            if b.is_cleanup(bb):
                continue
            idx_or = fl.origins(t["args"][1], (bb, None))
            data = sorted(o for o in idx_or if o[0] in ("param", "upvar"))
            elem = elem_type(t["f"]["ga"][0]) if t["f"].get("ga") else None
            tag = "/".join(".".join(o[2]) if o[0] == "param" else str(o[1:]) for o in data) or "non-data"
            o = ordn.get(tag, 0)
            ordn[tag] = o + 1
            key = "%s|index[%s]#%d" % (name, tag, o)
            if not data:
                # index not derived from deserialized data (loop counters, constants) -- but still must be safe:
                lit = [x for x in idx_or if x[0] == "const"]
                rep.ob("C12.I", key, False if not idx_or else all(x[0] in ("const", "index", "bin", "cast") for x in idx_or) and False,
                       "index operand does not derive from the deserialized struct (%s); cannot be decided" % sorted(idx_or),
                       b.loc(bb))
                continue
            nidx += 1
            ok, why = index_guarded(b, fl, bb, data, elem, guards)
            if not ok and all(o_[0] == "param" and not o_[2] for o_ in data):
                # a helper / local closure indexes with a bare parameter ("validated beforehand"): lift to every call site
                sites = []
                for n2 in sorted(layer):
                    cb2 = facts.bodies[n2]
                    for cbb, ct in cb2.calls():
                        if callee_name(ct) != name or cb2.is_cleanup(cbb):
                            continue
                        if b.kind != "closure":
                            sites.append((n2, cb2, cbb, {i + 1: (a_, (cbb, None)) for i, a_ in enumerate(ct["args"])}))
                            continue
                        binds = None
                        cfl0 = Flow(facts, cb2)
                        if len(ct["args"]) == 2 and ct["args"][1][0] != "k":
                            for di in cfl0.defs_of.get(ct["args"][1][1][0], []):
                                _, db, dj = cfl0.defs[di]
                                if db >= 0 and dj is not None:
                                    rv_ = cb2.stmts(db)[dj][2]
                                    if rv_[0] == "agg" and rv_[1].get("k") == "tuple":
                                        binds = {i + 2: (o2, (db, dj)) for i, o2 in enumerate(rv_[2])}
                        sites.append((n2, cb2, cbb, binds))
                lifted = bool(sites)
                notes = []
                for n2, cb2, cbb, binds in sites:
                    cfl = Flow(facts, cb2)
                    cdata = set()
                    for o_ in data:
                        if binds and o_[1] in binds and binds[o_[1]][0][0] != "k":
                            cdata |= {x for x in cfl.origins(binds[o_[1]][0], binds[o_[1]][1]) if x[0] in ("param", "upvar")}
                    ok2, why2 = index_guarded(cb2, cfl, cbb, sorted(cdata), elem, collect_guards(facts, cb2, cfl)) if cdata else (False, "argument not traced")
                    if not ok2 and cdata and all(x[0] == "param" and x[1] == 1 and x[2] for x in cdata) and cb2.kind != "closure":
                        # the call site sits in a method of the deserialized struct that is itself called after the table was
                        # validated: look one level further up, same `self`, same field paths
                        ups = [(n3, facts.bodies[n3], ubb) for n3 in sorted(layer) for ubb, ut in facts.bodies[n3].calls()
                               if callee_name(ut) == n2 and not facts.bodies[n3].is_cleanup(ubb)
                               and ut["args"] and ut["args"][0][0] != "k"]
                        if ups:
                            ok_up = True
                            for n3, ub3, ubb in ups:
                                ufl = Flow(facts, ub3)
                                if not any(o3[0] == "param" and o3[1] == 1 and not o3[2] for o3 in ufl.origins(ub3.term(ubb)["args"][0], (ubb, None))):
                                    ok_up = False
                                    continue
                                o3k, _ = index_guarded(ub3, ufl, ubb, sorted(cdata), elem, collect_guards(facts, ub3, ufl))
                                ok_up = ok_up and o3k
                            if ok_up:
                                ok2, why2 = True, "validated in %s before %s is called" % (ups[0][0].split("::")[-1], n2.split("::")[-1])
                    lifted = lifted and ok2
                    notes.append("%s: %s" % (n2.split("::")[-1], why2))
                if lifted:
                    ok, why = True, "parameter validated at every call site (%s)" % "; ".join(notes)
            rep.ob("C12.I", key, ok, why, b.loc(bb), {"index_origins": [list(map(str, d)) for d in data], "element_type": elem})
    rep.floor("C12.I", "data-derived index sites in the decoder layer", nidx, 8)
    # ---------------- C12.F
    field_agreement(facts, rep)


def elem_type(container_ty):
    m = re.match(r"^(?:std|alloc)::vec::Vec<(.*)>$", container_ty)
    if m:
        return m.group(1)
    m = re.match(r"^\[(.*)\]$", container_ty)
    if m:
        return m.group(1)
    return container_ty


def try_switch_of_call(b, call_bb):
    """(switch block, continue target, break target) of the `?` applied to the result of the call at call_bb"""
    t = b.term(call_bb)
    if len(t["dest"]) != 1 or t.get("t") is None:
        return None
    nxt = t["t"]
    tn = b.term(nxt)
    if tn["k"] != "call" or not (callee_name(tn) or "").endswith("::branch"):
        return None
    a = tn["args"][0]
    if a[0] == "k" or a[1][0] != t["dest"][0]:
        return None
    sw = tn.get("t")
    if sw is None or b.term(sw)["k"] != "switch":
        return None
    arms = dict(b.term(sw)["arms"])
    return sw, arms.get("0", b.term(sw)["else"]), arms.get("1", b.term(sw)["else"])


def _is_struct_datum(o):
    return o[0] in ("param", "upvar")


def collect_guards(facts, b, fl, depth=0, datum=_is_struct_datum):
    """comparisons `x OP len(container)`: list of dicts with the switch that tests them"""
    out = []
    if depth == 0:
        # validating helpers: `h(.., datum, ..)?` where h returns Err unless its parameter is in range
        for bb, t in b.calls():
            cn = callee_name(t)
            hb = facts.bodies.get(cn)
            if hb is None or b.is_cleanup(bb) or hb.crate != b.crate or hb.file != b.file or cn == b.id:
                continue
            ts = try_switch_of_call(b, bb)
            if ts is None:
                continue
            from ..flow import Flow as _F
            hfl = _F(facts, hb)
            for g in collect_guards(facts, hb, hfl, depth + 1):
                # the helper's out-of-range edge must end in an error exit of the helper
                if not (C.reachable(hb, [g["oor"]]) & C.error_exit_blocks(hb)) or \
                        (C.reachable(hb, [g["oor"]]) & C.ok_exit_blocks(hb)):
                    continue
                comp = set()
                for o in g["idx"]:
                    if o[0] == "param" and o[1] - 1 < len(t["args"]) and t["args"][o[1] - 1][0] != "k":
                        for co in fl.origins(t["args"][o[1] - 1], (bb, None)):
                            if co[0] == "param":
                                comp.add(("param", co[1], tuple(co[2]) + tuple(o[2])))
                if comp:
                    out.append({"switch": ts[0], "idx": frozenset(comp), "elem": g["elem"], "recv": frozenset(),
                                "oor": ts[2], "inr": ts[1], "via": cn})
    if depth == 0:
        # predicate helpers: `if !is_valid_id(ctx, datum) { return Err }` where the helper returns `datum < container.len()`
        for bb in range(b.nblocks()):
            if b.term(bb)["k"] != "switch" or b.is_cleanup(bb):
                continue
            src = C.switch_source(b, bb)
            if not src or src["kind"] != "call":
                continue
            hb = facts.bodies.get(src["callee"] or "")
            if hb is None or hb.kind == "closure" or hb.crate != b.crate or hb.file != b.file or hb.local_ty(0) != "bool":
                continue
            from ..flow import Flow as _F
            hfl = _F(facts, hb)
            ct = b.term(src["bb"])
            for r in C.return_blocks(hb):
                for o in hfl.origins(["c", [0]], (r, None)):
                    if o[0] != "bin" or o[3] not in ("Lt", "Ge", "Gt", "Le"):
                        continue
                    rv = hb.stmts(o[1])[o[2]][2]
                    a_or = hfl.origins(rv[2], (o[1], o[2]))
                    b_or = hfl.origins(rv[3], (o[1], o[2]))

                    def hlen(ors):
                        for x in ors:
                            if x[0] == "call" and x[2].endswith("::len"):
                                ga = hb.term(x[1])["f"].get("ga") or []
                                return ga[0] if ga else None
                        return None
                    la, lb = hlen(a_or), hlen(b_or)
                    if lb and not la:
                        idx_or, elem, inr_when = a_or, lb, {"Lt": True, "Ge": False}.get(o[3])
                    elif la and not lb:
                        idx_or, elem, inr_when = b_or, la, {"Gt": True, "Le": False}.get(o[3])
                    else:
                        continue
                    if inr_when is None:
                        continue
                    comp = set()
                    for io in idx_or:
                        if io[0] == "param" and io[1] - 1 < len(ct["args"]) and ct["args"][io[1] - 1][0] != "k":
                            for co in fl.origins(ct["args"][io[1] - 1], (src["bb"], None)):
                                if co[0] == "param":
                                    comp.add(("param", co[1], tuple(co[2]) + tuple(io[2])))
                    if not comp:
                        continue
                    t = b.term(bb)
                    arms = dict(t["arms"])
                    tgt_true = arms.get("1", t["else"])
                    tgt_false = arms.get("0", t["else"])
                    truth = inr_when if not src["neg"] else (not inr_when)
                    out.append({"switch": bb, "idx": frozenset(comp), "elem": elem, "recv": frozenset(),
                                "oor": tgt_false if truth else tgt_true, "inr": tgt_true if truth else tgt_false,
                                "via": hb.id})
    for bb in range(b.nblocks()):
        if b.term(bb)["k"] != "switch":
            continue
        src = C.switch_source(b, bb)
        if not src or src["kind"] != "cmp" or src["op"] not in ("Ge", "Gt", "Lt", "Le"):
            continue
        a_or = fl.origins(src["a"], (src["bb"], src["j"]))
        b_or = fl.origins(src["b"], (src["bb"], src["j"]))

        def len_elem(ors):
            for o in ors:
                if o[0] == "call" and o[2].endswith("::len"):
                    t = b.term(o[1])
                    ga = t["f"].get("ga") or []
                    recv = fl.origins(t["args"][0], (o[1], None)) if t["args"] else frozenset()
                    return (ga[0] if ga else None), recv
            return None

        la, lb = len_elem(a_or), len_elem(b_or)
        op, neg = src["op"], src["neg"]
        # normalise to: OOR (out of range) is the outcome where idx >= len
        if lb and not la:
            idx_or, ln = a_or, lb
            oor_when = {"Ge": True, "Lt": False}.get(op)      # idx >= len true / idx < len false
        elif la and not lb:
            idx_or, ln = b_or, la
            oor_when = {"Le": True, "Gt": False}.get(op)      # len <= idx true / len > idx false
        else:
            continue
        if oor_when is None:
            continue  # `idx > len` / `idx <= len` do not exclude idx == len: not a bounds guard
        if neg:
            oor_when = not oor_when
        t = b.term(bb)
        arms = dict(t["arms"])
        tgt_true = arms.get("1", t["else"])
        tgt_false = arms.get("0", t["else"])
        oor_tgt = tgt_true if oor_when else tgt_false
        in_tgt = tgt_false if oor_when else tgt_true
        out.append({"switch": bb, "idx": frozenset(o for o in idx_or if datum(o)),
                    "elem": ln[0], "recv": ln[1], "oor": oor_tgt, "inr": in_tgt})
    return out


def len_equalities(b, fl, site_bb):
    """pairs (origins of A, origins of B) such that a guard `len(A) == len(B)` (failing outcome -> cannot reach the site)
    dominates site_bb"""
    out = []
    for bb in range(b.nblocks()):
        if b.term(bb)["k"] != "switch" or b.is_cleanup(bb) or not C.dominates(b, bb, site_bb):
            continue
        src = C.switch_source(b, bb)
        if not src or src["kind"] != "cmp" or src["op"] not in ("Eq", "Ne"):
            continue

        def len_recv(op):
            for o in fl.origins(op, (src["bb"], src["j"])):
                if o[0] == "call" and o[2].endswith("::len"):
                    t = b.term(o[1])
                    return fl.origins(t["args"][0], (o[1], None)) if t["args"] else None
            return None
        ra, rb = len_recv(src["a"]), len_recv(src["b"])
        if not ra or not rb:
            continue
        differ_when = (src["op"] == "Ne")
        if src["neg"]:
            differ_when = not differ_when
        t = b.term(bb)
        arms = dict(t["arms"])
        tgt_differ = arms.get("1", t["else"]) if differ_when else arms.get("0", t["else"])
        if site_bb in C.reachable(b, [tgt_differ]):
            continue
        out.append((ra, rb))
    return out


def index_guarded(b, fl, bb, data, elem, guards):
    is_index = (callee_name(b.term(bb)) or "").endswith(("::index", "::index_mut", "::get_unchecked"))
    recv = fl.origins(b.term(bb)["args"][0], (bb, None)) if is_index else frozenset()
    data = set(data)
    tried = []
    eqs = None
    for g in guards:
        if not (g["idx"] & data):
            continue
        if g["elem"] != elem:
            tried.append("guard at bb%d compares against len of Vec<%s>, indexing Vec<%s>" % (g["switch"], g["elem"], elem))
            continue
        if recv and g["recv"] and not (recv & g["recv"]):
            if eqs is None:
                eqs = len_equalities(b, fl, bb)
            linked = any((ra & recv and rb & g["recv"]) or (rb & recv and ra & g["recv"]) for ra, rb in eqs)
            if not linked:
                tried.append("guard at bb%d measures a different container" % g["switch"])
                continue
        # (a) path guard: without the in-range edge the index is unreachable, and the out-of-range edge cannot reach it
        rem = {(g["switch"], g["inr"])}
        if bb in C.reachable(b, [g["oor"]]) and g["oor"] != g["inr"]:
            tried.append("out-of-range edge of guard bb%d still reaches the indexing" % g["switch"])
            continue
        if bb not in C.reachable(b, [0], removed_edges=rem):
            return True, "dominated by bounds guard at bb%d (same datum %s, len of Vec<%s>)" % (
                g["switch"], sorted(g["idx"] & data), elem)
        # (b) table-level validation: a loop containing the guard runs to completion before the loop of the use
        for h, blocks in C.loops(b):
            if g["switch"] in blocks and bb not in blocks and C.dominates(b, h, bb):
                bad_exit = None
                for x in blocks:
                    for s in b.succs(x):
                        if s not in blocks and bb in C.reachable(b, [s]):
                            src = C.switch_source(b, x)
                            is_iter = bool(src and src["kind"] == "discr" and x == loop_iter_switch(b, h, blocks))
                            if not is_iter:
                                bad_exit = (x, s)
                if bad_exit is None:
                    return True, "validated by the table-level loop at bb%d over the same field/position %s before use" % (
                        h, sorted(g["idx"] & data))
                tried.append("validation loop bb%d can be left early through bb%d->bb%d" % ((h,) + bad_exit))
    return False, ("index derived from deserialized data %s into Vec<%s> has no effective bounds guard%s"
                   % (sorted(data), elem, ("; " + "; ".join(tried)) if tried else ""))


def loop_iter_switch(b, header, blocks):
    """the block of a `for` loop that switches on the Option returned by Iterator::next"""
    for x in sorted(blocks):
        t = b.term(x)
        if t["k"] == "switch":
            src = C.switch_source(b, x)
            if src and src["kind"] == "discr":
                # discriminant of a local defined by a call to next
                pl = src["place"]
                defs = C._single_defs(b).get(pl[0], [])
                for (db, j, kind, payload) in defs:
                    if kind == "call" and (callee_name(payload) or "").endswith("::next"):
                        return x
    return None


def field_agreement(facts, rep):
    def fields_of(adt):
        a = facts.adts.get(adt)
        return [f for f in a["variants"][0]["fields"]] if a else None

    cb = fields_of("graphs::ContextBody")
    scb = fields_of("graphs::SerializableContextBody")
    gb = fields_of("graphs::GraphBody")
    sgb = fields_of("graphs::SerializableGraphBody")
    nb = fields_of("graphs::NodeBody")
    snb = fields_of("graphs::SerializableNodeBody")
    for nm, v in (("ContextBody", cb), ("SerializableContextBody", scb), ("GraphBody", gb),
                  ("SerializableGraphBody", sgb), ("NodeBody", nb), ("SerializableNodeBody", snb)):
        if not rep.anchor("C12.F", "graphs::" + nm, v):
            return
    rep.tables["derived_context_fields"] = DERIVED_CONTEXT_FIELDS
    # writer
    wr = fields_read_deep(facts, "graphs::Context::make_serializable", depth=1)
    for f in cb:
        if f["name"] in DERIVED_CONTEXT_FIELDS:
            continue
        rep.ob("C12.F", "writer|ContextBody.%s" % f["name"], ("graphs::ContextBody", f["name"]) in wr,
               "Context::make_serializable (incl. accessors it calls) reads ContextBody.%s" % f["name"])
    wg = fields_read_deep(facts, "graphs::Graph::make_serializable", depth=1)
    for f in gb:
        if f["name"] in DERIVED_GRAPH_FIELDS:
            continue
        rep.ob("C12.F", "writer|GraphBody.%s" % f["name"], ("graphs::GraphBody", f["name"]) in wg,
               "Graph::make_serializable reads GraphBody.%s" % f["name"])
    wn = fields_read_deep(facts, "graphs::Node::make_serializable", depth=1)
    for f in nb:
        if f["name"] in DERIVED_NODE_FIELDS:
            continue
        rep.ob("C12.F", "writer|NodeBody.%s" % f["name"], ("graphs::NodeBody", f["name"]) in wn,
               "Node::make_serializable reads NodeBody.%s" % f["name"])
    # reader
    rd = fields_read_deep(facts, "graphs::SerializableContextBody::recover_original_context", depth=1)
    for f in scb:
        rep.ob("C12.F", "reader|SerializableContextBody.%s" % f["name"],
               ("graphs::SerializableContextBody", f["name"]) in rd,
               "recover_original_context reads SerializableContextBody.%s" % f["name"])
    for f in sgb:
        rep.ob("C12.F", "reader|SerializableGraphBody.%s" % f["name"],
               ("graphs::SerializableGraphBody", f["name"]) in rd,
               "recover_original_graph reads SerializableGraphBody.%s" % f["name"])
    for f in snb:
        rep.ob("C12.F", "reader|SerializableNodeBody.%s" % f["name"],
               ("graphs::SerializableNodeBody", f["name"]) in rd,
               "recover_original_graph reads SerializableNodeBody.%s" % f["name"])
    # equality
    eq = fields_read_deep(facts, "graphs::contexts_deep_equal", depth=1, free_fn_depth=3)
    for f in cb:
        if f["name"] in DERIVED_CONTEXT_FIELDS:
            continue
        rep.ob("C12.F", "equality|ContextBody.%s" % f["name"], ("graphs::ContextBody", f["name"]) in eq,
               "contexts_deep_equal compares ContextBody.%s" % f["name"])
    for f in gb:
        if f["name"] in DERIVED_GRAPH_FIELDS:
            continue
        rep.ob("C12.F", "equality|GraphBody.%s" % f["name"], ("graphs::GraphBody", f["name"]) in eq,
               "graphs_deep_equal compares GraphBody.%s" % f["name"])
    for f in nb:
        if f["name"] in DERIVED_NODE_FIELDS:
            continue
        rep.ob("C12.F", "equality|NodeBody.%s" % f["name"], ("graphs::NodeBody", f["name"]) in eq,
               "graphs_deep_equal compares NodeBody.%s" % f["name"])
    # determinism: nothing hash-ordered is serialized
    for nm, v in (("SerializableContextBody", scb), ("SerializableGraphBody", sgb), ("SerializableNodeBody", snb)):
        for f in v:
            rep.ob("C12.F", "ordered|%s.%s" % (nm, f["name"]), "HashMap" not in f["ty"] and "HashSet" not in f["ty"],
                   "serialized field %s.%s has type %s (no hash-ordered container)" % (nm, f["name"], f["ty"]))
    # every HashMap field of ContextBody that is serialized goes through serialize_hashmap (sorted)
    ms = facts.body("graphs::Context::make_serializable")
    if rep.anchor("C12.F", "graphs::Context::make_serializable", ms):
        fl = Flow(facts, ms)
        agg = None
        for bb, j, place, rv in ms.assigns():
            if rv[0] == "agg" and rv[1].get("adt") == "graphs::SerializableContextBody":
                agg = (bb, j, rv)
        if rep.anchor("C12.F", "SerializableContextBody aggregate in make_serializable", agg):
            bb, j, rv = agg
            names = rv[1]["fields"]
            hm = {f["name"] for f in cb if "HashMap" in f["ty"]}
            for nm_, op in zip(names, rv[2]):
                if nm_ in hm:
                    ors = fl.origins(op, (bb, j))
                    ok = bool(ors) and all(o[0] == "call" and o[2].endswith("serialize_hashmap") for o in ors)
                    rep.ob("C12.F", "sorted|%s" % nm_, ok,
                           "serialized %s is produced by serialize_hashmap (sorted by key): %s" % (nm_, sorted(map(str, ors))),
                           ms.loc(bb))
            sh = facts.body("graphs::serialize_hashmap")
            if rep.anchor("C12.F", "graphs::serialize_hashmap", sh):
                sorts = [callee_name(t) for _, t in sh.calls() if "sort" in (callee_name(t) or "")]
                rep.ob("C12.F", "serialize_hashmap sorts", bool(sorts), "serialize_hashmap calls %s" % sorts, sh.loc())


# ============================================================================ C12.S / C12.V
def derived_serialization_complete(facts, rep):
    rep.rule("C12.S", "every field of every struct with a derived Serialize/Deserialize impl is written and read back: the derived "
                      "serialize body reads each field and the derived visitor fills each field from the input (a #[serde(skip)] "
                      "field silently resets on reload, so the reloaded context is not deeply equal)")
    n = 0
    for im in facts.impls:
        if im["crate"] != "ciphercore_base" or not im["trait"] or not im["derived"]:
            continue
        if not im["trait"].endswith("::Serialize"):
            continue
        a = facts.adts.get(im["adt"])
        if not a or a["kind"] != "struct":
            continue
        fs = [x["name"] for x in a["variants"][0]["fields"]]
        read = set()
        for fn in im["fns"]:
            b = facts.body(fn)
            if b:
                read |= {fl_ for (adt, fl_, k) in field_accesses(facts, b) if adt == im["adt"]}
        n += 1
        miss = [x for x in fs if x not in read]
        rep.ob("C12.S", "serialize|%s" % im["adt"], not miss,
               "derived Serialize writes all %d field(s)" % len(fs) if not miss else
               "field(s) %s of %s are not serialized (#[serde(skip)]?): they come back as defaults after a reload" % (miss, im["adt"]),
               "%s:%d" % (im["file"], im["line"]))
    rep.floor("C12.S", "structs with a derived Serialize impl", n, 40)


def version_gate(facts, rep):
    rep.rule("C12.V", "the envelope version is compared for equality and the payload is decoded only when it matches")
    b = facts.body("version::VersionedData::check_version")
    if rep.anchor("C12.V", "VersionedData::check_version", b):
        fl = Flow(facts, b)
        ok = False
        for r in C.return_blocks(b):
            for o in fl.origins([0], (r, None)):
                if o[0] == "bin":
                    rv = b.stmts(o[1])[o[2]][2]
                    if rv[1] == "Eq":
                        da = fl.origins(rv[2], (o[1], o[2])) | fl.origins(rv[3], (o[1], o[2]))
                        ok = any(x[0] == "param" and x[1] == 1 and x[2] == ("version",) for x in da) and \
                            any(x[0] == "param" and x[1] == 2 for x in da)
        rep.ob("C12.V", "check_version|equality", ok,
               "check_version returns `self.version == required`" if ok else
               "check_version is not an equality test of the stored version against the required one: envelopes of another "
               "version are decoded with this version's schema", b.loc())
    for n, b in facts.bodies.items():
        if n.endswith("::deserialize") and ("graphs::Context as" in n or "data_values::Value as" in n):
            cv = [bb for bb, t in b.calls() if callee_name(t) == "version::VersionedData::check_version"]
            dec = [bb for bb, t in b.calls() if "serde_json" in (callee_name(t) or "") and "from_str" in (callee_name(t) or "")]
            if not (rep.anchor("C12.V", "%s|check_version call" % n, cv) and rep.anchor("C12.V", "%s|payload decode" % n, dec)):
                continue
            res = V.executable_under(facts, b, site_values={(b.id, c): ("b", False) for c in cv})
            live = [d for d in dec if d in res.blocks]
            arg = b.term(cv[0])["args"][1]
            rep.ob("C12.V", "%s|gated" % n.split(" as ")[0].lstrip("<"), not live and arg[0] == "k" and "DATA_VERSION" in arg[2],
                   "the payload is decoded only if check_version(DATA_VERSION) holds", b.loc(cv[0]))


def value_type_check_is_length_exact(facts, rep):
    """C12.T: the only validation of a decoded Constant's value is Value::check_type (run by type inference)"""
    rep.rule("C12.T", "Value::check_type accepts a value only under a length equality: every `Ok(true)` of the function is "
                      "unreachable when the comparison between the number of children and the number of element types says "
                      "'different', and a byte-array verdict is itself an equality between bytes.len() and the type's size - a "
                      "constant that lost or gained children in the payload is rejected, not turned into an ill-typed node")
    root = facts.body("data_values::Value::check_type")
    if not rep.anchor("C12.T", "data_values::Value::check_type", root):
        return
    # check_type and the private helpers it delegates to (`is_bytes_of_length`, `check_children_types`, ..)
    fam = [root]
    for _, t_ in root.calls():
        hb = facts.bodies.get(callee_name(t_) or "")
        if hb is not None and hb not in fam and hb.kind != "closure" and hb.file == root.file and \
                (hb.local_ty(0) == "bool" or hb.local_ty(0).startswith("std::result::Result<bool")):
            fam.append(hb)
    n = 0
    for b in fam:
        fl = Flow(facts, b)

        def from_len(op, at):
            return any(o[0] == "call" and (o[2] or "").endswith("::len") for o in fl.origins(op, at))

        cmps = []       # (local, is_eq) of Eq/Ne between two lengths;  ordering comparisons are remembered separately
        ordering = 0
        for bb, j, place, rv in b.assigns():
            if rv[0] != "bin" or len(place) != 1 or b.is_cleanup(bb):
                continue
            if rv[1] in ("Eq", "Ne") and from_len(rv[2], (bb, j)) and from_len(rv[3], (bb, j)):
                cmps.append((place[0], rv[1] == "Eq", bb))
            elif rv[1] in ("Lt", "Le", "Gt", "Ge") and from_len(rv[2], (bb, j)) and from_len(rv[3], (bb, j)):
                ordering += 1
        for bb, j, place, rv in b.assigns():
            if b.is_cleanup(bb) or not (rv[0] == "agg" and rv[1].get("vn") == "Ok" and rv[2]):
                continue
            op = rv[2][0]
            if op[0] == "k":
                if op[2] not in ("true", "const true") and str(op[4]) != "1":
                    continue
                # Ok(true)
                n += 1
                ok = False
                for cl, is_eq, cb in cmps:
                    res = V.executable_under(facts, b, forced={cl: ("b", not is_eq)})
                    if bb not in res.blocks:
                        ok = True
                if not ok and not cmps and ordering:
                    rep.note("C12.T: check_type relates the two lengths only by ordering comparisons; not judged")
                    continue
                rep.ob("C12.T", "check_type|Ok(true)#%d" % n, ok,
                       "this acceptance is unreachable when children.len() and types.len() differ" if ok else
                       "check_type can answer Ok(true) without an equality test between the number of children and the number of "
                       "element types: a composite constant with missing (or extra) children type-checks", b.loc(bb))
            else:
                # Ok(<computed bool>): must be an equality involving a length
                ors = fl.origins(op, (bb, j))
                bins = [o for o in ors if o[0] == "bin"]
                if not bins:
                    continue
                n += 1
                good = all(b.stmts(o[1])[o[2]][2][1] == "Eq" and
                           (from_len(b.stmts(o[1])[o[2]][2][2], (o[1], o[2])) or from_len(b.stmts(o[1])[o[2]][2][3], (o[1], o[2])))
                           for o in bins)
                rep.ob("C12.T", "check_type|Ok(cmp)#%d" % n, good,
                       "the byte-array verdict is an equality between bytes.len() and the size computed from the type" if good else
                       "the byte-array verdict is not an equality on bytes.len(): values of another size are accepted", b.loc(bb))
    rep.analysed["check_type_acceptance_sites"] = n
    rep.anchor("C12.T", "check_type|acceptance sites (Ok(true) / Ok(len == size))", n >= 1)


def rebuild_order_is_valid(facts, rep):
    """C12.D = C11.D: the decoder rebuilds graphs and nodes strictly in id order and resolves dependencies against what was
    rebuilt so far; that only works for contexts in which every dependency precedes its user - which the builder guarantees"""
    from . import C11
    from .C06 import _Sub
    sub = _Sub(rep, "C12")
    sub.rule("C11.D", "every context the library can build can be rebuilt in id order: add_node_internal refuses a node whose "
                      "dependency does not precede it, is stored under another id, lives elsewhere, or whose graph dependency is "
                      "not older / not finalized / in another context (shared with C11.D) - otherwise a context serializes but its "
                      "own text fails to deserialize")
    flows = {}

    def flow_of(name):
        if name not in flows:
            flows[name] = Flow(facts, facts.bodies[name])
        return flows[name]
    C11.dependency_discipline(facts, sub, flow_of)


_run_pi = run


def run(facts, rep, tier):
    _run_pi(facts, rep, tier)
    derived_serialization_complete(facts, rep)
    version_gate(facts, rep)
    value_type_check_is_length_exact(facts, rep)
    rebuild_order_is_valid(facts, rep)
