"""Summaries shared by several rule modules."""
from ..flow import Flow
from ..facts import callee_name
from .. import cfg as C

ADD_TYPED = "graphs::Graph::add_node_with_type"
_CH = {}


def copy_helpers(facts):
    """crate-local helpers that re-create ONE node verbatim: `fn copy(out_graph, node, deps) -> Result<Node>` with
    add_node_with_type(deps, _, node.get_operation(), node.get_type()) followed, on every path to the normal return, by the
    copy of node's annotations (get_annotations -> add_annotation on the new node) and of its name; the new node is returned.
    A call to such a helper is equivalent to the inline sequence, so the pass-level rules treat it as an add_node_with_type
    site whose per-site obligations are discharged here.  Returns {helper name: {"node": param local, "why": str}}"""
    if id(facts) in _CH:
        return _CH[id(facts)]
    out = {}
    for name, b in facts.bodies.items():
        if b.crate != "ciphercore_base" or b.kind == "closure" or "graphs::Node" not in b.local_ty(0):
            continue
        if not ("/optimizer/" in b.file or b.file.endswith(("mpc/mpc_compiler.rs", "src/graphs.rs"))):
            continue
        adds = [bb for bb, t in b.calls() if callee_name(t) == ADD_TYPED and not b.is_cleanup(bb)]
        if len(adds) != 1:
            continue
        a = adds[0]
        fl = Flow(facts, b, {"graphs::Node::add_annotation": [0], "graphs::Node::set_name": [0]})
        t = b.term(a)

        def param_of(op, at, getter):
            ps = set()
            for o in fl.origins(op, at):
                if not (o[0] == "call" and o[2] == getter):
                    return None
                for o2 in fl.origins(b.term(o[1])["args"][0], (o[1], None)):
                    if o2[0] != "param" or o2[2]:
                        return None
                    ps.add(o2[1])
            return ps.pop() if len(ps) == 1 else None
        p_op = param_of(t["args"][3], (a, None), "graphs::Node::get_operation")
        p_ty = param_of(t["args"][4], (a, None), "graphs::Node::get_type")
        if p_op is None or p_op != p_ty:
            continue
        p = p_op
        rets = C.return_blocks(b)
        errs = C.error_exit_blocks(b)
        getann = [bb for bb, tt in b.calls() if callee_name(tt) == "graphs::Node::get_annotations" and not b.is_cleanup(bb)
                  and any(o[0] == "param" and o[1] == p for o in fl.origins(tt["args"][0], (bb, None)))]
        names = [bb for bb, tt in b.calls() if callee_name(tt) in ("graphs::copy_node_name", "graphs::Node::set_name") and not b.is_cleanup(bb)]
        ok_paths = bool(getann) and bool(names) and bool(rets) and \
            C.must_pass(b, a, rets, set(getann) | errs) and C.must_pass(b, a, rets, set(names) | errs)
        # annotations read from the parameter are put on the created node, and the created node is what is returned
        created = ("call", a, ADD_TYPED)
        ann_ok = False
        for bb, tt in b.calls():
            if callee_name(tt) == "graphs::Node::add_annotation" and not b.is_cleanup(bb):
                src = fl.origins(tt["args"][1], (bb, None))
                recv = fl.origins(tt["args"][0], (bb, None))
                if any(o[0] == "call" and o[1] in getann for o in src) and any(o[:3] == created for o in recv):
                    ann_ok = True
        ret_ok = bool(rets) and all(any(o[:3] == created for o in fl.origins([0], (r, None))) for r in rets)
        if ok_paths and ann_ok and ret_ok:
            out[name] = {"node": p, "why": "add_node_with_type(get_operation/get_type of parameter %d) + annotations + name, returned" % p}
    _CH[id(facts)] = out
    return out


def is_add_call(facts, t):
    cn = callee_name(t)
    return cn == ADD_TYPED or cn in copy_helpers(facts)


def pass_body(facts, fname):
    """the body that holds the node-copying loop of a pass: the named function, or - when the pass was split into private
    functions (`collect_..` + `copy_..`) - its only same-file callee (depth <= 2) that has an add site"""
    b = facts.body(fname)
    if b is None:
        return None
    if any(is_add_call(facts, t) and not b.is_cleanup(bb) for bb, t in b.calls()):
        return b
    cands = []
    seen = {b.id}
    work = [(b, 0)]
    while work:
        x, d = work.pop()
        for bb, t in x.calls():
            h = facts.bodies.get(callee_name(t) or "")
            if h is None or h.id in seen or h.kind == "closure" or h.file != b.file or x.is_cleanup(bb):
                continue
            seen.add(h.id)
            names = [callee_name(t2) or "" for b2, t2 in h.calls() if not h.is_cleanup(b2)]
            whole_loop = any(n_.endswith("ContextMappings::insert_node") for n_ in names) and \
                any(n_ in ("graphs::Node::set_as_output", "graphs::Graph::set_output_node") for n_ in names)
            if any(is_add_call(facts, t2) and not h.is_cleanup(b2) for b2, t2 in h.calls()) and h.id not in copy_helpers(facts):
                if whole_loop:      # the callee holds the complete copy loop (create, map, mark the output)
                    cands.append(h)
            elif d < 1:
                work.append((h, d + 1))
    return cands[0] if len(cands) == 1 else b


def same_file_family(facts, fname):
    """the named function and the private same-file functions it calls (depth <= 2), closures excluded"""
    b = facts.body(fname)
    if b is None:
        return []
    out, work = [b], [(b, 0)]
    while work:
        x, d = work.pop()
        for bb, t in x.calls():
            h = facts.bodies.get(callee_name(t) or "")
            if h is not None and h not in out and h.kind != "closure" and h.file == b.file and not x.is_cleanup(bb):
                out.append(h)
                if d < 1:
                    work.append((h, d + 1))
    return out
