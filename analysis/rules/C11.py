"""C11 — graph-building API keeps contexts well-formed; failed calls have no effect (mechanisms)."""
from ..flow import Flow, field_name
from ..facts import callee_name
from .. import cfg as C
from ..fields import field_accesses
from ..feas import infeasible_edges

BODIES = ("graphs::GraphBody", "graphs::ContextBody")


def borrow_mut_sites(b):
    out = []
    for bb, t in b.calls():
        n = callee_name(t) or ""
        if n.endswith("AtomicRefCell::<T>::borrow_mut") and t["f"].get("ga") and t["f"]["ga"][0] in BODIES:
            if not b.is_cleanup(bb):
                out.append((bb, t["f"]["ga"][0]))
    return out


def finalized_pruning(facts, b, fl, value=True):
    """edges removed when every 'is this graph/context finalized' test answers `value`"""
    removed = set()
    tests = []
    for bb in range(b.nblocks()):
        if b.term(bb)["k"] != "switch" or b.is_cleanup(bb):
            continue
        src = C.switch_source(b, bb)
        if not src:
            continue
        hit = False
        if src["kind"] == "call" and (src["callee"] or "").endswith("::is_finalized"):
            hit = True
        elif src["kind"] == "place":
            tr = fl.trail(src["place"])
            if tr and tr[-1] == "finalized":
                hit = True
        if hit:
            v = value if not src["neg"] else (not value)
            removed |= C.bool_switch_removed(b, bb, v)
            tests.append(bb)
    return removed, tests


def written_fields(facts, b):
    return {(adt, f) for (adt, f, k) in field_accesses(facts, b) if k == "w" and adt in BODIES}


def run(facts, rep, tier):
    rep.rule("C11.G", "every function that mutably borrows a GraphBody/ContextBody is (i) unreachable-at-the-borrow once the "
                      "graph/context is finalized, (ii) a set-once setter of an Option field that finalize requires, (iii) a "
                      "finalizer writing only `finalized = true`, (iv) a private helper whose every call site is protected, or "
                      "(v) a writer of the type cache only")
    rep.rule("C11.R", "in add_node_internal every path from the push of the new node to an error exit passes through "
                      "remove_last_node; remove_last_node unregisters names/annotations, the cached type and pops the node; "
                      "the size counter is written only on success")
    rep.rule("C11.B", "name tables are updated pairwise and checks precede writes in set_graph_name / set_node_name / unregister_node")
    rep.rule("C11.D", "dependency discipline: the node aggregate of add_node_internal is unreachable when a dependency check fails")
    muts = {}
    for name, b in facts.bodies.items():
        if b.crate != "ciphercore_base":
            continue
        s = borrow_mut_sites(b)
        if s:
            muts[name] = s
    rep.floor("C11.G", "functions with borrow_mut on GraphBody/ContextBody", len(muts), 15)
    rep.analysed["mutators"] = sorted(muts)
    # reverse call graph
    callers = {}
    for name, b in facts.bodies.items():
        for bb, t in b.calls():
            c = callee_name(t)
            if c in facts.bodies:
                callers.setdefault(c, []).append((name, bb))
    flows = {}

    def flow_of(name):
        if name not in flows:
            flows[name] = Flow(facts, facts.bodies[name])
        return flows[name]

    guarded_cache = {}

    def guard_info(name):
        if name in guarded_cache:
            return guarded_cache[name]
        b = facts.bodies[name]
        rem, tests = finalized_pruning(facts, b, flow_of(name), True)
        reach = C.reachable(b, [0], removed_edges=rem) if tests else set(range(b.nblocks()))
        guarded_cache[name] = (reach, tests)
        return guarded_cache[name]

    def site_protected(name, bb, seen=()):
        """the call/borrow at block bb of `name` cannot execute on a finalized graph/context"""
        reach, tests = guard_info(name)
        if tests and bb not in reach:
            return True, "after finalized-guard of %s" % name
        b = facts.bodies[name]
        if b.vis == "pub" or name in seen:
            return False, "%s is pub and block bb%d is reachable when finalized" % (name, bb)
        cs = callers.get(name, [])
        if not cs:
            return False, "%s has no callers to lift the obligation to" % name
        for (cn, cbb) in cs:
            ok, why = site_protected(cn, cbb, seen + (name,))
            if not ok:
                return False, "call from %s: %s" % (cn, why)
        return True, "private; all %d call site(s) protected" % len(cs)

    finalizers = {}
    for name in muts:
        w = written_fields(facts, facts.bodies[name])
        if w and all(f == "finalized" for _, f in w):
            for adt, _ in w:
                finalizers[adt] = name
    for name, sites in sorted(muts.items()):
        b = facts.bodies[name]
        fl = flow_of(name)
        w = written_fields(facts, b)
        wnames = sorted(f for _, f in w)
        reach, tests = guard_info(name)
        loc = b.loc()
        # (i) guarded
        if tests and all(bb not in reach for bb, _ in sites):
            rep.ob("C11.G", name, True, "guarded: all %d borrow_mut site(s) unreachable when finalized (tests at bb%s); writes %s"
                   % (len(sites), tests, wnames), loc)
            continue
        # (iii) finalizer
        if w and all(f == "finalized" for _, f in w):
            ok = True
            for bb, j, place, rv in b.assigns():
                if place[-1:] and field_name(place[-1]) == "finalized":
                    ok = ok and rv[0] == "use" and rv[1][0] == "k" and rv[1][4] == "1"
            rep.ob("C11.G", name, ok, "finalizer: writes only `finalized = true`", loc)
            continue
        # (v) type cache only
        if w and all(f == "type_checker" for _, f in w):
            rep.ob("C11.G", name, True, "writes only the type cache (type_checker): not observable state "
                                         "(not serialized, not compared)", loc)
            continue
        # (ii) set-once Option field that the finalizer requires
        if len(w) == 1:
            (adt, fld), = w
            a = facts.adts.get(adt)
            fty = [f["ty"] for f in a["variants"][0]["fields"] if f["name"] == fld][0]
            if fty.startswith("std::option::Option<"):
                ok1, why1 = set_once(b, fl, fld, sites)
                fin = finalizers.get(adt)
                ok2, why2 = (False, "no finalizer found for %s" % adt)
                if fin:
                    ok2, why2 = finalizer_requires(facts.bodies[fin], flow_of(fin), fld)
                rep.ob("C11.G", name, ok1 and ok2,
                       "set-once setter of %s.%s: %s; %s" % (adt.split("::")[-1], fld, why1, why2), loc)
                continue
        # (iv) helper
        ok_all, whys = True, []
        for bb, _ in sites:
            ok, why = site_protected(name, bb)
            ok_all = ok_all and ok
            whys.append(why)
        rep.ob("C11.G", name, ok_all,
               ("protected helper: " if ok_all else "mutation of %s reachable on a finalized graph/context: " % wnames)
               + "; ".join(sorted(set(whys))), loc)
    rollback(facts, rep, flow_of)


def set_once(b, fl, fld, sites):
    """under 'current value of the field is Some' every borrow_mut is unreachable"""
    removed = set()
    found = False
    for bb in range(b.nblocks()):
        if b.term(bb)["k"] != "switch" or b.is_cleanup(bb):
            continue
        src = C.switch_source(b, bb)
        if src and src["kind"] == "discr" and src["adt"] == "std::option::Option":
            tr = fl.trail(src["place"])
            if tr and tr[-1] == fld:
                removed |= C.variant_switch_removed(b, bb, 1)  # Some
                found = True
    if not found:
        return False, "no test of the current value of `%s`" % fld
    reach = C.reachable(b, [0], removed_edges=removed)
    bad = [bb for bb, _ in sites if bb in reach]
    return (not bad), ("write unreachable once `%s` is Some" % fld if not bad else "write at bb%s reachable although `%s` is already Some" % (bad, fld))


def finalizer_requires(b, fl, fld):
    removed = set()
    found = False
    for bb in range(b.nblocks()):
        if b.term(bb)["k"] != "switch" or b.is_cleanup(bb):
            continue
        src = C.switch_source(b, bb)
        if src and src["kind"] == "discr" and src["adt"] == "std::option::Option":
            tr = fl.trail(src["place"])
            if tr and tr[-1] == fld:
                removed |= C.variant_switch_removed(b, bb, 0)  # None
                found = True
    if not found:
        return False, "finalizer %s does not test `%s`" % (b.id, fld)
    reach = C.reachable(b, [0], removed_edges=removed)
    wr = [bb for bb, j, place, rv in b.assigns() if place[-1:] and field_name(place[-1]) == "finalized"]
    bad = [bb for bb in wr if bb in reach]
    return (not bad and bool(wr)), ("%s sets finalized only when `%s` is Some" % (b.id, fld) if not bad else
                                    "%s can finalize with `%s` = None" % (b.id, fld))


def rollback(facts, rep, flow_of):
    name = "graphs::Graph::add_node_internal"
    b = facts.body(name)
    if not rep.anchor("C11.R", name, b):
        return
    push = [bb for bb, t in b.calls() if (callee_name(t) or "").endswith("Vec::<T, A>::push")
            and t["f"].get("ga") and t["f"]["ga"][0] == "graphs::Node" and not b.is_cleanup(bb)]
    rm = [bb for bb, t in b.calls() if callee_name(t) == "graphs::Graph::remove_last_node"]
    if not (rep.anchor("C11.R", "push of the new node in add_node_internal", push)
            and rep.anchor("C11.R", "remove_last_node call in add_node_internal", rm)):
        return
    errs = C.error_exit_blocks(b)
    rep.floor("C11.R", "error exits of add_node_internal", len(errs), 8)
    inf = infeasible_edges(b, flow_of(name))
    rep.analysed["add_node_internal_infeasible_edges_pruned"] = len(inf)
    after = set()
    for p in push:
        after |= C.reachable_after(b, p, removed_edges=inf)
    n = 0
    seen_desc = {}
    for e in sorted(errs & after):
        n += 1
        ok = all(C.must_pass(b, p, [e], rm, removed_edges=inf) for p in push)
        wit = None
        if not ok:
            wit = C.find_path(b, [s for p in push for s in b.succs(p)], [e], removed_edges=inf, removed_blocks=set(rm))
        what = describe_exit(b, e)
        k = seen_desc.get(what, 0)
        seen_desc[what] = k + 1
        if k:
            what = "%s#%d" % (what, k)
        rep.ob("C11.R", "add_node_internal|exit:%s" % what, ok,
               "error exit (%s) after the node was pushed %s remove_last_node%s" % (
                   what, "passes through" if ok else "is reachable WITHOUT",
                   "" if ok else " (path bb%s): the call returns Err but the node stays in the graph" % wit),
               b.loc(e))
    rep.floor("C11.R", "error exits after the push", n, 4)
    # remove_last_node
    r = facts.body("graphs::Graph::remove_last_node")
    if rep.anchor("C11.R", "graphs::Graph::remove_last_node", r):
        fl = flow_of(r.id)
        oks = C.ok_exit_blocks(r)
        need = {
            "Context::unregister_node": [bb for bb, t in r.calls() if callee_name(t) == "graphs::Context::unregister_node"],
            "Vec::pop on nodes": [bb for bb, t in r.calls() if (callee_name(t) or "").endswith("Vec::<T, A>::pop")],
        }
        for what, blocks in need.items():
            ok = bool(blocks) and bool(oks) and C.must_pass(r, 0, oks, blocks, after=False)
            rep.ob("C11.R", "remove_last_node|%s" % what, ok,
                   "every Ok path of remove_last_node passes through %s" % what, r.loc())
        tcu = [bb for bb, t in r.calls() if callee_name(t) == "type_inference::TypeInferenceWorker::unregister_node"]
        removed = set()
        for bb in range(r.nblocks()):
            if r.term(bb)["k"] == "switch" and not r.is_cleanup(bb):
                src = C.switch_source(r, bb)
                if src and src["kind"] == "discr" and src["adt"] == "std::option::Option":
                    tr = fl.trail(src["place"])
                    if tr and tr[-1] == "type_checker":
                        removed |= C.variant_switch_removed(r, bb, 1)
        ok = bool(tcu) and bool(oks) and C.must_pass(r, 0, oks, tcu, removed_edges=removed, after=False)
        rep.ob("C11.R", "remove_last_node|TypeInferenceWorker::unregister_node", ok,
               "when a type checker exists every Ok path drops the node's cached type (a stale entry would be served to the next node with this id)",
               r.loc())
    # try_update_total_size: counter written only on the success path
    t = facts.body("graphs::Context::try_update_total_size")
    if rep.anchor("C11.R", "graphs::Context::try_update_total_size", t):
        sets = [bb for bb, tt in t.calls() if callee_name(tt) == "graphs::Context::set_total_size_nodes"]
        errs_t = C.error_exit_blocks(t)
        ok = bool(sets) and all(not (C.reachable_after(t, s) & errs_t) for s in sets)
        rep.ob("C11.R", "try_update_total_size|no error after write", ok,
               "no error exit is reachable after the size counter has been written", t.loc())
        # in add_node_internal: after a successful update nothing can fail
        calls = [bb for bb, tt in b.calls() if callee_name(tt) == "graphs::Context::try_update_total_size"]
        if rep.anchor("C11.R", "try_update_total_size call in add_node_internal", calls):
            fl = flow_of(name)
            rem = C.assume_call_results(b, [(lambda cn, ct, cbb: (cn or "").endswith("Result::<T, E>::is_err")
                                              and any(o[0] == "call" and o[1] in calls
                                                      for o in fl.origins(ct["args"][0], (cbb, None))), False)])
            bad = set()
            for c in calls:
                bad |= (C.reachable_after(b, c, removed_edges=rem) & errs)
            rep.ob("C11.R", "add_node_internal|no error after size update", not bad,
                   "after try_update_total_size succeeded no error exit is reachable (bb%s)" % sorted(bad), b.loc())


def describe_exit(b, e):
    """stable description of an error exit: the callee whose failure is propagated, or the error text"""
    t = b.term(e)
    if t["k"] == "call" and "from_residual" in (callee_name(t) or ""):
        # find the Try::branch feeding this residual: nearest dominating branch call
        doms = C.dominators(b).get(e, set())
        best = None
        for d in sorted(doms):
            td = b.term(d)
            if td["k"] == "call" and (callee_name(td) or "").endswith("::branch"):
                best = d
        if best is not None:
            # the call producing the Result given to branch
            arg = b.term(best)["args"][0]
            defs = C._single_defs(b).get(arg[1][0], []) if arg[0] != "k" else []
            for (db, j, kind, payload) in defs:
                if kind == "call":
                    return "?:" + (callee_name(payload) or "?").split("::")[-1] + "@" + str(_ordinal(b, db))
        return "?"
    for s in b.stmts(e):
        pass
    # explicit `return Err(runtime_error!(..))`: use the message literal found in dominating blocks
    doms = C.dominators(b).get(e, set())
    msg = None
    for d in sorted(doms):
        td = b.term(d)
        if td["k"] == "call" and (callee_name(td) or "").endswith("Arguments::<'a>::from_str"):
            a = td["args"][0]
            if a[0] == "k":
                msg = a[2]
    return "Err:" + (msg or "?")[:60]


def _ordinal(b, bb):
    n = callee_name(b.term(bb))
    k = 0
    for x, t in b.calls():
        if x == bb:
            return k
        if callee_name(t) == n:
            k += 1
    return k
