"""C11 — graph-building API keeps contexts well-formed; failed calls have no effect (mechanisms)."""
from ..flow import Flow, field_name
from ..facts import callee_name
from .. import cfg as C
from ..fields import field_accesses
from ..feas import infeasible_edges
from .. import vcai as V

BODIES = ("graphs::GraphBody", "graphs::ContextBody")


def borrow_mut_sites(b):
    out = []
    for bb, t in b.calls():
        n = callee_name(t) or ""
        if n.endswith("AtomicRefCell::<T>::borrow_mut") and t["f"].get("ga") and t["f"]["ga"][0] in BODIES:
            if not b.is_cleanup(bb):
                out.append((bb, t["f"]["ga"][0]))
    return out


def finalized_pruning(facts, b, fl, value=True):
    """edges removed when every 'is this graph/context finalized' test answers `value`"""
    removed = set()
    tests = []
    for bb in range(b.nblocks()):
        if b.term(bb)["k"] != "switch" or b.is_cleanup(bb):
            continue
        src = C.switch_source(b, bb)
        if not src:
            continue
        hit = False
        if src["kind"] == "call" and (src["callee"] or "").endswith("::is_finalized"):
            hit = True
        elif src["kind"] == "place":
            tr = fl.trail(src["place"])
            if tr and tr[-1] == "finalized":
                hit = True
        if hit:
            v = value if not src["neg"] else (not value)
            removed |= C.bool_switch_removed(b, bb, v)
            tests.append(bb)
    return removed, tests


def written_fields(facts, b):
    return {(adt, f) for (adt, f, k) in field_accesses(facts, b) if k == "w" and adt in BODIES}


def run(facts, rep, tier):
    rep.rule("C11.G", "every function that mutably borrows a GraphBody/ContextBody is (i) unreachable-at-the-borrow once the "
                      "graph/context is finalized, (ii) a set-once setter of an Option field that finalize requires, (iii) a "
                      "finalizer writing only `finalized = true`, (iv) a private helper whose every call site is protected, or "
                      "(v) a writer of the type cache only")
    rep.rule("C11.R", "in add_node_internal every path from the push of the new node to an error exit passes through "
                      "remove_last_node; remove_last_node unregisters names/annotations, the cached type and pops the node; "
                      "the size counter is written only on success")
    rep.rule("C11.B", "name tables are updated pairwise and checks precede writes in set_graph_name / set_node_name / unregister_node")
    rep.rule("C11.D", "dependency discipline: the node aggregate of add_node_internal is unreachable when a dependency check fails")
    muts = {}
    for name, b in facts.bodies.items():
        if b.crate != "ciphercore_base":
            continue
        s = borrow_mut_sites(b)
        if s:
            muts[name] = s
    rep.floor("C11.G", "functions with borrow_mut on GraphBody/ContextBody", len(muts), 12)
    rep.analysed["mutators"] = sorted(muts)
    # reverse call graph
    callers = {}
    for name, b in facts.bodies.items():
        for bb, t in b.calls():
            c = callee_name(t)
            if c in facts.bodies:
                callers.setdefault(c, []).append((name, bb))
    flows = {}

    def flow_of(name):
        if name not in flows:
            flows[name] = Flow(facts, facts.bodies[name])
        return flows[name]

    guarded_cache = {}

    def guard_info(name):
        if name in guarded_cache:
            return guarded_cache[name]
        b = facts.bodies[name]
        rem, tests = finalized_pruning(facts, b, flow_of(name), True)
        reach = C.reachable(b, [0], removed_edges=rem) if tests else set(range(b.nblocks()))
        guarded_cache[name] = (reach, tests)
        return guarded_cache[name]

    def site_protected(name, bb, seen=()):
        """the call/borrow at block bb of `name` cannot execute on a finalized graph/context"""
        reach, tests = guard_info(name)
        if tests and bb not in reach:
            return True, "after finalized-guard of %s" % name
        b = facts.bodies[name]
        if b.vis == "pub" or name in seen:
            return False, "%s is pub and block bb%d is reachable when finalized" % (name, bb)
        cs = callers.get(name, [])
        if not cs and b.kind == "closure" and b.root in facts.bodies and b.root not in seen:
            # a closure handed to a combinator (map_err / and_then / for_each ..) runs inside its creating function: the
            # obligation is that of the place where the closure is created
            pb = facts.bodies[b.root]
            made = [bb2 for bb2, j2, place2, rv2 in pb.assigns() if rv2[0] == "agg" and rv2[1].get("k") == "closure" and rv2[1].get("def") == name]
            if made:
                for bb2 in made:
                    ok, why = site_protected(b.root, bb2, seen + (name,))
                    if not ok:
                        return False, "closure created in %s: %s" % (b.root, why)
                return True, "closure; its creation site(s) in %s are protected" % b.root
        if not cs:
            return False, "%s has no callers to lift the obligation to" % name
        for (cn, cbb) in cs:
            ok, why = site_protected(cn, cbb, seen + (name,))
            if not ok:
                return False, "call from %s: %s" % (cn, why)
        return True, "private; all %d call site(s) protected" % len(cs)

    finalizers = {}
    for name in muts:
        w = written_fields(facts, facts.bodies[name])
        if w and all(f == "finalized" for _, f in w):
            for adt, _ in w:
                finalizers[adt] = name
    for name, sites in sorted(muts.items()):
        b = facts.bodies[name]
        fl = flow_of(name)
        w = written_fields(facts, b)
        wnames = sorted(f for _, f in w)
        reach, tests = guard_info(name)
        loc = b.loc()
        # (i) guarded
        if tests and all(bb not in reach for bb, _ in sites):
            rep.ob("C11.G", name, True, "guarded: all %d borrow_mut site(s) unreachable when finalized (tests at bb%s); writes %s"
                   % (len(sites), tests, wnames), loc)
            continue
        # (iii) finalizer
        if w and all(f == "finalized" for _, f in w):
            ok = True
            for bb, j, place, rv in b.assigns():
                if place[-1:] and field_name(place[-1]) == "finalized":
                    ok = ok and rv[0] == "use" and rv[1][0] == "k" and rv[1][4] == "1"
            rep.ob("C11.G", name, ok, "finalizer: writes only `finalized = true`", loc)
            continue
        # (v) type cache only
        if w and all(f == "type_checker" for _, f in w):
            rep.ob("C11.G", name, True, "writes only the type cache (type_checker): not observable state "
                                         "(not serialized, not compared)", loc)
            continue
        # (ii) set-once Option field that the finalizer requires
        if len(w) == 1:
            (adt, fld), = w
            a = facts.adts.get(adt)
            fty = [f["ty"] for f in a["variants"][0]["fields"] if f["name"] == fld][0]
            if fty.startswith("std::option::Option<"):
                ok1, why1 = set_once(b, fl, fld, sites, facts)
                fin = finalizers.get(adt)
                ok2, why2 = (False, "no finalizer found for %s" % adt)
                if fin:
                    ok2, why2 = finalizer_requires(facts.bodies[fin], flow_of(fin), fld, facts)
                rep.ob("C11.G", name, ok1 and ok2,
                       "set-once setter of %s.%s: %s; %s" % (adt.split("::")[-1], fld, why1, why2), loc)
                continue
        # (iv) helper
        ok_all, whys = True, []
        for bb, _ in sites:
            ok, why = site_protected(name, bb)
            ok_all = ok_all and ok
            whys.append(why)
        rep.ob("C11.G", name, ok_all,
               ("protected helper: " if ok_all else "mutation of %s reachable on a finalized graph/context: " % wnames)
               + "; ".join(sorted(set(whys))), loc)
    rollback(facts, rep, flow_of)


def _option_field_locals(b, fl, fld):
    """locals that hold (a clone of / a reference to) the Option-typed field `fld` of a shared body"""
    out = set()
    for l in range(len(b.locals)):
        ty = b.local_ty(l)
        if not (ty.startswith("std::option::Option<") or ty.startswith("&std::option::Option<")):
            continue
        for di in fl.defs_of.get(l, []):
            _, bb, j = fl.defs[di]
            if bb < 0:
                continue
            if j is None:
                t = b.term(bb)
                if t["args"] and t["args"][0][0] != "k" and (callee_name(t) or "").endswith(("::clone", "::as_ref", "::take")):
                    tr = fl.trail(t["args"][0][1])
                    if tr and tr[-1] == fld:
                        out.add(l)
            else:
                rv = b.stmts(bb)[j][2]
                pl = rv[2] if rv[0] in ("ref", "raw") else (rv[1][1] if rv[0] == "use" and rv[1][0] != "k" else None)
                if pl is not None:
                    tr = fl.trail(pl)
                    if tr and tr[-1] == fld and (len(pl) > 1 or pl[0] in out):
                        out.add(l)
    return out


def _assume_option(facts, b, fl, fld, some):
    """executable part of b assuming every read of the Option field `fld` yields Some(_) / None"""
    from .. import vcai as V
    val = ("enum", "std::option::Option", 1, "Some", (V.TOP,)) if some else ("enum", "std::option::Option", 0, "None", ())
    locs = _option_field_locals(b, fl, fld)
    forced = {l: val for l in locs}
    res = V.executable_under(facts, b, forced=forced)
    # direct discriminant reads of the field place (`match self.body.borrow().output_node { .. }`)
    removed = {(x, y) for x, y in C.edges(b) if (x, y) not in res.edges}
    found = bool(locs)
    for bb in range(b.nblocks()):
        if b.term(bb)["k"] != "switch" or b.is_cleanup(bb):
            continue
        src = C.switch_source(b, bb)
        if src and src["kind"] == "discr" and src["adt"] == "std::option::Option":
            tr = fl.trail(src["place"])
            if tr and tr[-1] == fld:
                removed |= C.variant_switch_removed(b, bb, 1 if some else 0)
                found = True
    return found, removed


def set_once(b, fl, fld, sites, facts=None):
    """under 'current value of the field is Some' every borrow_mut is unreachable"""
    found, removed = _assume_option(facts, b, fl, fld, True)
    if not found:
        return False, "no test of the current value of `%s`" % fld
    reach = C.reachable(b, [0], removed_edges=removed)
    bad = [bb for bb, _ in sites if bb in reach]
    return (not bad), ("write unreachable once `%s` is Some" % fld if not bad else "write at bb%s reachable although `%s` is already Some" % (bad, fld))


def finalizer_requires(b, fl, fld, facts=None):
    found, removed = _assume_option(facts, b, fl, fld, False)
    if not found:
        return False, "finalizer %s does not test `%s`" % (b.id, fld)
    reach = C.reachable(b, [0], removed_edges=removed)
    wr = [bb for bb, j, place, rv in b.assigns() if place[-1:] and field_name(place[-1]) == "finalized"]
    bad = [bb for bb in wr if bb in reach]
    return (not bad and bool(wr)), ("%s sets finalized only when `%s` is Some" % (b.id, fld) if not bad else
                                    "%s can finalize with `%s` = None" % (b.id, fld))


def rollback(facts, rep, flow_of):
    name = "graphs::Graph::add_node_internal"
    b = facts.body(name)
    if not rep.anchor("C11.R", name, b):
        return
    push = [bb for bb, t in b.calls() if (callee_name(t) or "").endswith("Vec::<T, A>::push")
            and t["f"].get("ga") and t["f"]["ga"][0] == "graphs::Node" and not b.is_cleanup(bb)]
    rm = [bb for bb, t in b.calls() if callee_name(t) == "graphs::Graph::remove_last_node"]
    if not (rep.anchor("C11.R", "push of the new node in add_node_internal", push)
            and rep.anchor("C11.R", "remove_last_node call in add_node_internal", rm)):
        return
    errs = C.error_exit_blocks(b)
    rep.floor("C11.R", "error exits of add_node_internal", len(errs), 8)
    inf = infeasible_edges(b, flow_of(name))
    rep.analysed["add_node_internal_infeasible_edges_pruned"] = len(inf)
    after = set()
    for p in push:
        after |= C.reachable_after(b, p, removed_edges=inf)
    n = 0
    seen_desc = {}
    for e in sorted(errs & after):
        n += 1
        ok = all(C.must_pass(b, p, [e], rm, removed_edges=inf) for p in push)
        wit = None
        if not ok:
            wit = C.find_path(b, [s for p in push for s in b.succs(p)], [e], removed_edges=inf, removed_blocks=set(rm))
        what = describe_exit(b, e)
        k = seen_desc.get(what, 0)
        seen_desc[what] = k + 1
        if k:
            what = "%s#%d" % (what, k)
        rep.ob("C11.R", "add_node_internal|exit:%s" % what, ok,
               "error exit (%s) after the node was pushed %s remove_last_node%s" % (
                   what, "passes through" if ok else "is reachable WITHOUT",
                   "" if ok else " (path bb%s): the call returns Err but the node stays in the graph" % wit),
               b.loc(e))
    rep.floor("C11.R", "error exits after the push", n, 4)
    # remove_last_node
    r = facts.body("graphs::Graph::remove_last_node")
    if rep.anchor("C11.R", "graphs::Graph::remove_last_node", r):
        fl = flow_of(r.id)
        oks = C.ok_exit_blocks(r)
        need = {
            "Context::unregister_node": [bb for bb, t in r.calls() if callee_name(t) == "graphs::Context::unregister_node"],
            "Vec::pop on nodes": [bb for bb, t in r.calls() if (callee_name(t) or "").endswith("Vec::<T, A>::pop")],
        }
        for what, blocks in need.items():
            ok = bool(blocks) and bool(oks) and C.must_pass(r, 0, oks, blocks, after=False)
            rep.ob("C11.R", "remove_last_node|%s" % what, ok,
                   "every Ok path of remove_last_node passes through %s" % what, r.loc())
        ok, why = must_call_on_ok(facts, r, flow_of, "type_inference::TypeInferenceWorker::unregister_node", "type_checker")
        rep.ob("C11.R", "remove_last_node|TypeInferenceWorker::unregister_node", ok,
               "when a type checker exists every Ok path of remove_last_node (incl. the helpers it calls) drops the node's cached "
               "type (%s)" % why if ok else
               "a rolled-back node can keep its cached type (%s): the stale entry is served to the next node with this id" % why,
               r.loc())
    # try_update_total_size: counter written only on the success path
    t = facts.body("graphs::Context::try_update_total_size")
    if rep.anchor("C11.R", "graphs::Context::try_update_total_size", t):
        sets = [bb for bb, tt in t.calls() if callee_name(tt) == "graphs::Context::set_total_size_nodes"]
        errs_t = C.error_exit_blocks(t)
        ok = bool(sets) and all(not (C.reachable_after(t, s) & errs_t) for s in sets)
        rep.ob("C11.R", "try_update_total_size|no error after write", ok,
               "no error exit is reachable after the size counter has been written", t.loc())
        # in add_node_internal: after a successful update nothing can fail
        calls = [bb for bb, tt in b.calls() if callee_name(tt) == "graphs::Context::try_update_total_size"]
        if rep.anchor("C11.R", "try_update_total_size call in add_node_internal", calls):
            fl = flow_of(name)
            # assume the update succeeded (whatever the spelling of the test: is_err(), `if let Err(..)`, match, `?`)
            okv = ("enum", "std::result::Result", 0, "Ok", (V.TOP,))
            # locals that merely carry the call's result further (`let r = match .. { .., Ok(_) => ctx.try_update_total_size(..) }`):
            # on every path that comes from the call they hold its result, so they are Ok too
            carriers = set()
            dests = {b.term(c)["dest"][0] for c in calls if b.term(c).get("dest")}
            frontier = set(dests)
            for _ in range(6):
                new_ = set()
                for bb_, j_, place_, rv_ in b.assigns():
                    if len(place_) == 1 and rv_[0] == "use" and rv_[1][0] != "k" and rv_[1][1] == [rv_[1][1][0]] and rv_[1][1][0] in frontier \
                            and place_[0] not in carriers and place_[0] not in dests:
                        new_.add(place_[0])
                carriers |= new_
                frontier = new_
                if not new_:
                    break
            res_ok = V.executable_under(facts, b, site_values={(b.id, c): okv for c in calls},
                                        forced={l_: okv for l_ in (carriers | dests)} or None)
            rem = {(x, y) for x, y in C.edges(b) if (x, y) not in res_ok.edges}
            bad = set()
            for c in calls:
                bad |= (C.reachable_after(b, c, removed_edges=rem) & errs)
            rep.ob("C11.R", "add_node_internal|no error after size update", not bad,
                   "after try_update_total_size succeeded no error exit is reachable (bb%s)" % sorted(bad), b.loc())


def must_call_on_ok(facts, b, flow_of, target, option_field, depth=0):
    """every path from entry to an Ok exit calls `target` directly or through a crate callee for which the same holds;
    switches on the Option field `option_field` are taken to be Some (the rule is about the case where it exists)"""
    fl = flow_of(b.id)
    oks = C.ok_exit_blocks(b)
    if not oks:
        return False, "%s has no Ok exit" % b.id
    removed = set()
    for bb in range(b.nblocks()):
        if b.term(bb)["k"] == "switch" and not b.is_cleanup(bb):
            src = C.switch_source(b, bb)
            if src and src["kind"] == "discr" and src["adt"] == "std::option::Option":
                tr = fl.trail(src["place"])
                if tr and tr[-1] == option_field:
                    removed |= C.variant_switch_removed(b, bb, 1)
    through = []
    via = []
    for bb, t in b.calls():
        if b.is_cleanup(bb):
            continue
        cn = callee_name(t)
        if cn == target:
            through.append(bb)
        elif cn in facts.bodies and depth < 2 and facts.bodies[cn].file == b.file and cn != b.id:
            ok2, _ = must_call_on_ok(facts, facts.bodies[cn], flow_of, target, option_field, depth + 1)
            if ok2:
                through.append(bb)
                via.append(cn.split("::")[-1])
    # `self.type_checker.as_mut().map(|tc| tc.unregister_node(n)).transpose()?`: the call sits in a closure handed to an Option
    # combinator applied to the option field itself - with the field taken to be Some the closure runs
    for bb, t in b.calls():
        if b.is_cleanup(bb):
            continue
        cn = callee_name(t) or ""
        if not (cn.startswith("std::option::Option") and cn.endswith(("::map", "::and_then", "::map_or", "::map_or_else"))):
            continue
        tr = fl.trail(t["args"][0][1]) if t["args"] and t["args"][0][0] != "k" else None
        recv_ok = bool(tr) and tr[-1] == option_field
        if not recv_ok and t["args"] and t["args"][0][0] != "k":
            for o in fl.origins(t["args"][0], (bb, None)):
                if o[0] == "call" and o[2].endswith(("::as_mut", "::as_ref")):
                    tr2 = fl.trail(b.term(o[1])["args"][0][1]) if b.term(o[1])["args"][0][0] != "k" else None
                    recv_ok = recv_ok or (bool(tr2) and tr2[-1] == option_field)
        if not recv_ok:
            continue
        for a in t["args"][1:]:
            if a[0] == "k":
                continue
            cty = b.local_ty(a[1][0])
            for cb in facts.closures_of(b.root or b.id):
                if ("closure@%s:%d:" % (cb.file, cb.line)) in cty and any(callee_name(ct) == target for _, ct in cb.calls()):
                    through.append(bb)
                    via.append("closure")
    if not through:
        return False, "%s never reaches %s" % (b.id.split("::")[-1], target.split("::")[-1])
    ok = C.must_pass(b, 0, oks, through, removed_edges=removed, after=False)
    if ok:
        return True, "in %s%s" % (b.id.split("::")[-1], (" via " + "/".join(sorted(set(via)))) if via else "")
    wit = C.find_path(b, [0], oks, removed_edges=removed, removed_blocks=set(through))
    return False, "%s has an Ok path that skips it (bb%s)" % (b.id.split("::")[-1], wit)


def describe_exit(b, e):
    """stable description of an error exit: the callee whose failure is propagated, or the error text"""
    t = b.term(e)
    if t["k"] == "call" and "from_residual" in (callee_name(t) or ""):
        # find the Try::branch feeding this residual: nearest dominating branch call
        doms = C.dominators(b).get(e, set())
        best = None
        for d in sorted(doms):
            td = b.term(d)
            if td["k"] == "call" and (callee_name(td) or "").endswith("::branch"):
                best = d
        if best is not None:
            # the call producing the Result given to branch
            arg = b.term(best)["args"][0]
            defs = C._single_defs(b).get(arg[1][0], []) if arg[0] != "k" else []
            for (db, j, kind, payload) in defs:
                if kind == "call":
                    return "?:" + (callee_name(payload) or "?").split("::")[-1] + "@" + str(_ordinal(b, db))
        return "?"
    for s in b.stmts(e):
        pass
    # explicit `return Err(runtime_error!(..))`: use the message literal found in dominating blocks
    doms = C.dominators(b).get(e, set())
    msg = None
    for d in sorted(doms):
        td = b.term(d)
        if td["k"] == "call" and (callee_name(td) or "").endswith("Arguments::<'a>::from_str"):
            a = td["args"][0]
            if a[0] == "k":
                msg = a[2]
    return "Err:" + (msg or "?")[:60]


def _ordinal(b, bb):
    n = callee_name(b.term(bb))
    k = 0
    for x, t in b.calls():
        if x == bb:
            return k
        if callee_name(t) == n:
            k += 1
    return k


# ============================================================================ C11.B / C11.D
MUTATING = ("::insert", "::push", "::remove", "::pop", "::extend", "::clear", "::push_back", "::retain", "::truncate",
            "::append", "::drain", "::swap_remove")
LAZY = ("::entry", "::or_default", "::or_insert_with", "::or_insert")
# fields that are not part of a context's observable state (not serialized, not compared, only a cache)
UNOBSERVABLE = {"type_checker": "type cache; rebuilt on demand by Node::get_type"}
PAIRS = (("graphs_names", "graphs_names_inverse"), ("nodes_names", "nodes_names_inverse"))


def effective_writes(facts, b, fl):
    """(bb, field trail, callee) of container mutations / field stores on a mutably borrowed Graph/Context body"""
    out = []
    for bb, t in b.calls():
        n = callee_name(t) or ""
        if b.is_cleanup(bb) or not n.startswith(("std::", "hashbrown::", "<std::", "alloc::", "core::")):
            continue
        if not n.endswith(MUTATING) or not t["args"] or t["args"][0][0] == "k":
            continue
        tr = fl.trail(t["args"][0][1])
        root = fl.root_of(t["args"][0][1][0])
        # receiver must live inside a GraphBody/ContextBody (reached through a borrow_mut)
        inside = any(x in BODIES for x in (b.local_adt(root),)) or _through_borrow_mut(b, fl, t["args"][0][1][0])
        if not inside or not tr:
            continue
        # lazy creation of an empty per-graph map is not observable
        if n.endswith("::insert") and len(t["args"]) >= 3:
            vo = fl.origins(t["args"][2], (bb, None))
            if not vo:  # HashMap::new() / Vec::new(): empty container
                continue
        out.append((bb, tuple(tr), n))
    for bb, j, place, rv in b.assigns():
        if len(place) > 1 and field_name(place[-1]) is not None and not b.is_cleanup(bb):
            if _through_borrow_mut(b, fl, place[0]):
                out.append((bb, tuple(fl.trail(place)), "store"))
    return out


def _through_borrow_mut(b, fl, l, depth=0):
    ds = fl.defs_of.get(l, [])
    if len(ds) != 1 or depth > 25:
        return False
    _, bb, j = fl.defs[ds[0]]
    if bb < 0:
        return False
    if j is None:
        t = b.term(bb)
        n = callee_name(t) or ""
        if n.endswith("AtomicRefCell::<T>::borrow_mut") and t["f"].get("ga") and t["f"]["ga"][0] in BODIES:
            return True
        if t["args"] and t["args"][0][0] != "k" and (n.endswith(("::deref_mut", "::deref", "::get_mut", "::index_mut", "::expect",
                                                                "::unwrap", "::as_mut", "::or_default", "::entry", "::or_insert_with"))):
            return _through_borrow_mut(b, fl, t["args"][0][1][0], depth + 1)
        return False
    rv = b.stmts(bb)[j][2]
    if rv[0] in ("ref", "raw"):
        return _through_borrow_mut(b, fl, rv[2][0], depth + 1)
    if rv[0] == "use" and rv[1][0] != "k":
        return _through_borrow_mut(b, fl, rv[1][1][0], depth + 1)
    return False


def atomicity(facts, rep, muts, flow_of):
    n = 0
    for name in sorted(muts):
        if name == "graphs::Graph::add_node_internal":
            continue  # compensated by remove_last_node: rule C11.R
        b = facts.bodies[name]
        fl = flow_of(name)
        ws = effective_writes(facts, b, fl)
        errs = C.error_exit_blocks(b)
        inf = infeasible_edges(b, fl)
        bad = []
        for bb, tr, cn in ws:
            n += 1
            if tr and tr[-1] in UNOBSERVABLE:
                continue
            r = C.reachable_after(b, bb, removed_edges=inf) & errs
            if r:
                bad.append((tr[-1] if tr else "?", cn.split("::")[-1], sorted(r)))
        rep.ob("C11.B", "%s|no-error-after-write" % name, not bad,
               "no error exit is reachable after a write to the shared body (%d write(s): %s)" % (
                   len(ws), sorted(set(w[1][-1] for w in ws if w[1]))) if not bad else
               "the call can return Err after it already changed the context: %s" % (
                   ["%s.%s -> error exit bb%s" % (f, c, e) for f, c, e in bad]), b.loc())
        fields = {}
        for bb, tr, cn in ws:
            if tr:
                kind = "remove" if cn.endswith(("::remove", "::pop")) else "insert"
                fields.setdefault(tr[-1] if tr[-1] in sum(PAIRS, ()) else (tr[-2] if len(tr) > 1 and tr[-2] in sum(PAIRS, ()) else tr[-1]),
                                  set()).add(kind)
        for a, c in PAIRS:
            if a in fields or c in fields:
                # the inverse table of nodes is a map of maps: a write to an inner map has the inner trail
                ka, kc = fields.get(a, set()), fields.get(c, set())
                inner = any(len(w[1]) and w[1][-1] not in sum(PAIRS, ()) for w in ws)
                ok = bool(ka) and (bool(kc) or inner)
                rep.ob("C11.B", "%s|pair:%s" % (name, a), ok,
                       "%s updates both %s (%s) and %s (%s)" % (name.split("::")[-1], a, sorted(ka), c, sorted(kc) or "inner map"), b.loc())
    rep.floor("C11.B", "effective writes to Graph/Context bodies", n, 10)


def dependency_discipline(facts, rep, flow_of):
    name = "graphs::Graph::add_node_internal"
    b = facts.body(name)
    if not rep.anchor("C11.D", name, b):
        return
    fl = flow_of(name)
    agg = [bb for bb, j, place, rv in b.assigns() if rv[0] == "agg" and rv[1].get("adt") == "graphs::NodeBody"]
    if not rep.anchor("C11.D", "NodeBody aggregate in add_node_internal", agg):
        return
    A = agg[0]

    def names(ors):
        return {o[2] for o in ors if o[0] == "call"}

    def has_self(ors):
        return any(o[0] == "param" and o[1] == 1 for o in ors)

    guards = {}

    def collect(b, fl, escapes_from, via=None):
        """classify the guard tests of body b; escapes_from(target block) = the failing branch can still lead to node creation"""
        for bb in range(b.nblocks()):
            if b.term(bb)["k"] != "switch" or b.is_cleanup(bb):
                continue
            src = C.switch_source(b, bb)
            if not src:
                continue
            kind = None
            bad = None
            if src["kind"] == "call":
                ct = b.term(src["bb"])
                cn = src["callee"] or ""
                d = ct["f"].get("def") or ""
                if d in ("std::cmp::PartialEq::ne", "std::cmp::PartialEq::eq") and len(ct["args"]) == 2:
                    ao = fl.origins(ct["args"][0], (src["bb"], None))
                    bo = fl.origins(ct["args"][1], (src["bb"], None))
                    na, nb = names(ao), names(bo)
                    if "graphs::Node::get_graph" in na | nb and (has_self(ao) or has_self(bo)):
                        kind = "dependency lives in this graph"
                    elif "graphs::Graph::get_context" in na and "graphs::Graph::get_context" in nb:
                        kind = "graph dependency is in the same context"
                    elif any(x.endswith("::index") for x in na | nb) or ("graphs::Node::get_id" in na | nb and
                                                                        any(o[0] == "call" and o[2].endswith("::borrow") for o in ao | bo)):
                        kind = "stored node at that id is the dependency"
                    else:
                        # Index collapses into its container: nodes[..] vs dependency
                        ga = ct["f"].get("ga") or []
                        if ga and ga[0] == "graphs::Node":
                            kind = "stored node at that id is the dependency"
                    if kind:
                        bad = (d.endswith("::ne"))
                elif cn == "graphs::Graph::is_finalized":
                    ro = fl.origins(ct["args"][0], (src["bb"], None))
                    if not has_self(ro):
                        kind = "graph dependency is finalized"
                        bad = False
            elif src["kind"] == "cmp" and src["op"] in ("Ge", "Lt", "Gt", "Le"):
                ao = fl.origins(src["a"], (src["bb"], src["j"]))
                bo = fl.origins(src["b"], (src["bb"], src["j"]))
                na, nb = names(ao), names(bo)
                if "graphs::Node::get_id" in na and any(x.endswith("::len") for x in nb):
                    kind = "dependency id precedes the new node"
                    bad = {"Ge": True, "Lt": False}.get(src["op"])
                elif "graphs::Graph::get_id" in na and "graphs::Graph::get_id" in nb:
                    kind = "graph dependency is older than this graph"
                    bad = {"Ge": True, "Lt": False}.get(src["op"])
            if kind is None or bad is None:
                continue
            if src["neg"]:
                bad = not bad
            t = b.term(bb)
            arms = dict(t["arms"])
            tgt_bad = arms.get("1", t["else"]) if bad else arms.get("0", t["else"])
            escapes = escapes_from(tgt_bad)
            guards.setdefault(kind, []).append((bb if via is None else "%s:bb%d" % (via, bb), not escapes))

    collect(b, fl, lambda tgt: A in C.reachable(b, [tgt]))
    # checks moved into a helper (`self.check_graph_dependency(dep)?`): the helper's failing branch must not reach an Ok
    # return, and a failing helper call must keep add_node_internal away from the node aggregate
    for cbb, ct in b.calls():
        h = facts.bodies.get(callee_name(ct) or "")
        if h is None or h is b or h.kind == "closure" or b.is_cleanup(cbb) or not h.file.endswith("graphs.rs"):
            continue
        rty = h.local_ty(0)
        if not rty.startswith("std::result::Result") or A not in C.reachable(b, [cbb]):
            continue
        errv = ("enum", "std::result::Result", 1, "Err", (V.TOP,))
        r_err = V.executable_under(facts, b, site_values={(b.id, cbb): errv})
        rem_ = {(x, y) for x, y in C.edges(b) if (x, y) not in r_err.edges}
        if A in C.reachable_after(b, cbb, removed_edges=rem_):
            continue        # a failing helper call does not stop the node from being created: its checks do not count
        oks = C.ok_exit_blocks(h)
        hfl = Flow(facts, h)
        collect(h, hfl, lambda tgt, h=h, oks=oks: bool(set(C.reachable(h, [tgt])) & set(oks)), via=h.id.split("::")[-1])
    want = ["dependency lives in this graph", "dependency id precedes the new node", "stored node at that id is the dependency",
            "graph dependency is finalized", "graph dependency is older than this graph", "graph dependency is in the same context"]
    # guards that may have been moved into iterator closures (`deps.iter().any(|d| ..)`, `try_for_each(|g| ..)`): the rule does
    # not read those; when the characteristic getter of a check is called inside such a closure (or a helper's closure) the
    # check is reported as not judged instead of missing
    GETTER = {"dependency lives in this graph": "graphs::Node::get_graph", "dependency id precedes the new node": "graphs::Node::get_id",
              "stored node at that id is the dependency": "::index", "graph dependency is finalized": "graphs::Graph::is_finalized",
              "graph dependency is older than this graph": "graphs::Graph::get_id",
              "graph dependency is in the same context": "graphs::Graph::get_context"}
    fam_closures = list(facts.closures_of(b.id))
    for cbb, ct in b.calls():
        h = facts.bodies.get(callee_name(ct) or "")
        if h is not None and h is not b and h.kind != "closure" and h.file.endswith("graphs.rs") and not b.is_cleanup(cbb):
            fam_closures += list(facts.closures_of(h.id))

    for c_ in list(fam_closures):
        for _, t_ in c_.calls():
            h2 = facts.bodies.get(callee_name(t_) or "")
            if h2 is not None and h2.kind != "closure" and h2.file.endswith("graphs.rs") and h2 not in fam_closures and h2 is not b:
                fam_closures.append(h2)      # a check function applied per element: `try_for_each(|g| self.check_graph_dependency(g))`

    def maybe_in_closure(kind):
        g_ = GETTER[kind]
        return any((callee_name(t_) or "").endswith(g_) for c_ in fam_closures for _, t_ in c_.calls())
    for w in want:
        g = guards.get(w, [])
        ok = any(x[1] for x in g)
        if not ok and maybe_in_closure(w):
            rep._unjudged("C11.D", w, "the check that the %s may live in an iterator closure, which this rule does not read" % w)
            continue
        rep.ob("C11.D", w, ok,
               ("checked before the node is created: a failing test cannot reach the NodeBody aggregate (tests at bb%s)" % [x[0] for x in g])
               if ok else ("no effective check that the %s: the node can be created when it does not hold" % w), b.loc(A))
    # the id of the new node is the current length of `nodes`
    for bb, j, place, rv in b.assigns():
        if rv[0] == "agg" and rv[1].get("adt") == "graphs::NodeBody":
            k = rv[1]["fields"].index("id")
            ors = fl.origins(rv[2][k], (bb, j))
            ok = any(o[0] == "call" and o[2].endswith("::len") for o in ors) and all(o[0] in ("call", "cast") for o in ors)
            if not ok:
                # the id may be computed by a helper that returns nodes.len()
                for o in ors:
                    hb = facts.bodies.get(o[2]) if o[0] == "call" else None
                    if hb is not None and hb.kind != "closure":
                        hfl = Flow(facts, hb)
                        if any(x[0] == "call" and x[2].endswith("::len") for r_ in C.return_blocks(hb) for x in hfl.origins([0], (r_, None))):
                            ok = True
            rep.ob("C11.D", "id-is-len", ok, "the new node's id is nodes.len() (%s)" % sorted(names(ors)), b.loc(bb))


_run_gr = run


def run(facts, rep, tier):
    _run_gr(facts, rep, tier)
    muts = {}
    for name, b in facts.bodies.items():
        if b.crate == "ciphercore_base" and borrow_mut_sites(b):
            muts[name] = True
    flows = {}

    def flow_of(name):
        if name not in flows:
            flows[name] = Flow(facts, facts.bodies[name])
        return flows[name]
    atomicity(facts, rep, muts, flow_of)
    dependency_discipline(facts, rep, flow_of)
