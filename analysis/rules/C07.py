"""C07 — inlining: ephemeral binding discipline (the mechanism behind 'a body that draws randomness is
instantiated afresh for every inlined copy')."""
from ..flow import Flow
from ..facts import callee_name
from .. import cfg as C
from .. import vcai as V


def is_assign(n):
    return n is not None and n.endswith("::assign_input_nodes")


def is_unassign(n):
    return n is not None and n.endswith("::unassign_nodes")


def is_inline(n):
    return n is not None and n.endswith("::recursively_inline_graph")


def run(facts, rep, tier):
    rep.rule("C07.B", "bind / inline / unbind typestate: after a successful assign_input_nodes(g, ..) every non-error path reaches "
                      "unassign_nodes(g) before the next assign, the loop back edge or a normal return, with exactly one "
                      "recursively_inline_graph(g) in between")
    rep.rule("C07.F", "no memoisation of bodies: in recursively_inline_graph a node is skipped only if it is already bound "
                      "(and then it must be an Input, else the function diverges); every other iteration creates a node; "
                      "unassign_nodes removes every bound node of the graph")
    n_sites = 0
    for name, b in sorted(facts.bodies.items()):
        if b.crate != "ciphercore_base" or "/inline/" not in b.file:
            continue
        if b.impl and b.impl.get("trait") and b.impl["trait"].endswith("InlineState"):
            continue  # delegating trait impl
        calls = [(bb, callee_name(t), t["f"].get("def")) for bb, t in b.calls() if not b.is_cleanup(bb)]
        A = [bb for bb, n, d in calls if is_assign(n) or is_assign(d)]
        if not A or name.endswith("::assign_input_nodes"):
            continue
        U = {bb for bb, n, d in calls if is_unassign(n) or is_unassign(d)}
        R = {bb for bb, n, d in calls if is_inline(n) or is_inline(d)}
        E = C.error_exit_blocks(b)
        rets = set(C.return_blocks(b))
        fl = Flow(facts, b)
        # a body is inlined only under a binding: unassign_nodes is also what clears the temporary mappings of a copy, so a
        # shortcut that inlines without assign/unassign leaves them behind for the next copy
        unbound = [r for r in R if r in C.reachable(b, [0], removed_blocks=set(A) | E)]
        rep.ob("C07.B", "%s|inline-only-under-binding" % name, not unbound,
               "every recursively_inline_graph call of this function is preceded by assign_input_nodes on every path" if not unbound else
               "recursively_inline_graph can be reached without assign_input_nodes (and so without the matching unassign_nodes): the "
               "copy's temporary node mappings are never cleared, a later copy of the same body finds stale entries",
               b.loc(unbound[0]) if unbound else b.loc())
        for k, a in enumerate(A):
            n_sites += 1
            key = "%s|assign#%d" % (name, k)
            free = C.reachable_after(b, a, removed_blocks=U | E)
            # the error edge of the assign call itself leads to an error exit: fine (E removed)
            bad = []
            if free & set(A):
                bad.append("another assign_input_nodes is reachable before unassign_nodes (bb%s)" % sorted(free & set(A)))
            if free & rets:
                bad.append("a normal return is reachable with the inputs still bound")
            if not U:
                bad.append("no unassign_nodes in this function")
            no_inline = C.reachable_after(b, a, removed_blocks=R | E)
            if no_inline & U:
                bad.append("unassign_nodes is reachable without inlining the body")
            for r in R:
                again = C.reachable_after(b, r, removed_blocks=U | E)
                if r in C.reachable_after(b, a, removed_blocks=E) and (again & R):
                    bad.append("the body can be inlined twice under one binding")
            # same graph value
            def graph_arg(bb):
                for x in b.term(bb)["args"]:
                    if x[0] != "k" and b.local_ty(x[1][0]) == "graphs::Graph":
                        return fl.origins(x, (bb, None))
                return frozenset()
            ga = graph_arg(a)
            for u in U:
                if u in C.reachable_after(b, a, removed_blocks=E):
                    gu = graph_arg(u)
                    if ga and gu and not (ga & gu):
                        bad.append("unassign_nodes is applied to a different graph than assign_input_nodes")
            rep.ob("C07.B", key, not bad,
                   "bind -> inline once -> unbind on every non-error path" if not bad else
                   "; ".join(sorted(set(bad))) + ": stale ephemeral bindings make a later copy reuse nodes of an earlier one",
                   b.loc(a))
    rep.floor("C07.B", "assign_input_nodes call sites in inline/**", n_sites, 5)
    # ------------------------------------------------------------------ C07.F
    CREATE = ("Graph::add_node_with_type", "inline_ops::inline_call", "inline_ops::inline_iterate")

    def creating_helpers():
        """helpers of inline/** every Ok return of which has passed through a node creator (e.g. an extracted copy branch)"""
        out = set()
        for n_, hb in facts.bodies.items():
            if hb.crate != "ciphercore_base" or "/inline/" not in hb.file or hb.kind == "closure" or n_.endswith(CREATE):
                continue
            cs = [bb for bb, t in hb.calls() if not hb.is_cleanup(bb) and (callee_name(t) or "").endswith(CREATE)]
            oks = C.ok_exit_blocks(hb)
            if cs and oks and C.must_pass(hb, 0, oks, set(cs) | C.error_exit_blocks(hb), after=False):
                out.add(n_)
        return out

    def bound_tests(body):
        """blocks that test `ephemeral_context_mapping.contains_node(..)`, directly or through a `-> bool` predicate method"""
        fl_ = Flow(facts, body)
        out = []
        for bb, t in body.calls():
            if body.is_cleanup(bb):
                continue
            cn = callee_name(t) or ""
            if cn.endswith("ContextMappings::contains_node"):
                if body.id.endswith("unassign_nodes") or (fl_.trail(t["args"][0][1]) or [""])[-1] == "ephemeral_context_mapping":
                    out.append(bb)
                continue
            hb = facts.bodies.get(cn)
            if hb is not None and hb.kind != "closure" and hb.local_ty(0) == "bool" and "/inline/" in hb.file:
                hfl = Flow(facts, hb)
                if any((callee_name(ht) or "").endswith("ContextMappings::contains_node") and not hb.is_cleanup(hbb)
                       and (hfl.trail(ht["args"][0][1]) or [""])[-1] == "ephemeral_context_mapping" for hbb, ht in hb.calls()):
                    out.append(bb)
        return out

    r = facts.body("inline::inline_ops::recursively_inline_graph")
    if rep.anchor("C07.F", "inline::inline_ops::recursively_inline_graph", r):
        ch = creating_helpers()
        creators = [bb for bb, t in r.calls() if not r.is_cleanup(bb) and ((callee_name(t) or "").endswith(CREATE) or callee_name(t) in ch)]
        flr = Flow(facts, r)
        cont = bound_tests(r)
        lp = None
        for h, blocks in C.loops(r):
            if creators and creators[0] in blocks and (lp is None or len(blocks) > len(lp[1])):
                lp = (h, blocks)
        if rep.anchor("C07.F", "node loop / contains_node test / node creators", lp and cont and creators):
            h, blocks = lp
            E = C.error_exit_blocks(r)
            start = [s for s in r.succs(h) if s in blocks]
            res = V.executable_under(facts, r, site_values={(r.id, c): ("b", False) for c in cont if c in blocks})
            removed = {(x, y) for x, y in C.edges(r) if (x, y) not in res.edges}
            reach = C.reachable(r, start, removed_edges=removed, removed_blocks=set(creators) | E)
            rep.ob("C07.F", "unbound-node-is-created", h not in reach,
                   "when the node is not bound, an iteration cannot reach the next one without creating a node "
                   "(add_node_with_type / inline_call / inline_iterate)" if h not in reach else
                   "a node that is not bound can be skipped: a second inlining would reuse the first copy's nodes", r.loc(h))
            # bound and not an input: diverges
            vidx = {n: i for i, n in V.variants(facts)}
            it = V.Interp(facts, vidx["Add"], site_values={(r.id, c): ("b", True) for c in cont if c in blocks})
            res2 = it.run(r)
            removed2 = {(x, y) for x, y in C.edges(r) if (x, y) not in res2.edges}
            reach2 = C.reachable(r, start, removed_edges=removed2)
            rep.ob("C07.F", "bound-non-input-diverges", h not in reach2 and not (reach2 & set(creators)),
                   "a bound node that is not an Input cannot be skipped silently (the function panics)", r.loc(h))
            it3 = V.Interp(facts, vidx["Input"], site_values={(r.id, c): ("b", True) for c in cont if c in blocks})
            res3 = it3.run(r)
            removed3 = {(x, y) for x, y in C.edges(r) if (x, y) not in res3.edges}
            reach3 = C.reachable(r, start, removed_edges=removed3)
            rep.ob("C07.F", "bound-input-skipped", h in reach3 and not (reach3 & set(creators)),
                   "a bound Input node is skipped (it stands for the caller's argument)", r.loc(h))
    u = facts.body("inline::inline_ops::unassign_nodes")
    if rep.anchor("C07.F", "inline::inline_ops::unassign_nodes", u):
        cont = bound_tests(u)
        rem = [bb for bb, t in u.calls() if not u.is_cleanup(bb) and (callee_name(t) or "").endswith(
            ("remove_ephemeral_node", "ContextMappings::remove_node"))]
        loops = C.loops(u)
        if rep.anchor("C07.F", "loop / contains_node / remove in unassign_nodes", loops and cont and rem):
            h, blocks = loops[0]
            start = [s for s in u.succs(h) if s in blocks]
            res = V.executable_under(facts, u, site_values={(u.id, c): ("b", True) for c in cont})
            removed = {(x, y) for x, y in C.edges(u) if (x, y) not in res.edges}
            reach = C.reachable(u, start, removed_edges=removed, removed_blocks=set(rem))
            rep.ob("C07.F", "unassign-removes-every-bound-node", h not in reach,
                   "every bound node of the graph is removed from the ephemeral mapping", u.loc(h))
            fl = Flow(facts, u)
            src = set()
            for c in cont:
                for a_ in u.term(c)["args"]:
                    if a_[0] != "k" and "graphs::Node" in u.local_ty(a_[1][0]):
                        src |= {o[2] for o in fl.origins(a_, (c, None)) if o[0] == "call"}
            rep.ob("C07.F", "unassign-iterates-all-nodes", src == {"graphs::Graph::get_nodes"},
                   "unassign_nodes tests every node of graph.get_nodes() (%s)" % sorted(src), u.loc())
    inliner_keeps_annotations(facts, rep, "C07")


def inliner_keeps_annotations(facts, rep, P="C07"):
    """every inlined copy of a node carries the node's annotations: in recursively_inline_graph the annotations read from the
    source node are put on the node created in this very iteration (not on a node looked up in a mapping, which for a second
    inlining of the same body is the FIRST copy)"""
    rid = P + (".A" if P == "C07" else ".I")
    rep.rule(rid, "the inliner copies annotations onto the copy it has just created: every add_annotation in "
                  "recursively_inline_graph whose annotation comes from get_annotations of the source node has the result of the "
                  "add_node_with_type call of the same iteration as its receiver (a Send marker must exist on every inlined copy "
                  "of a protocol body, not only on the first)")
    r = facts.body("inline::inline_ops::recursively_inline_graph")
    if not rep.anchor(rid, "inline::inline_ops::recursively_inline_graph", r):
        return
    from .common import copy_helpers
    fam = [r] + [hb for n_, hb in facts.bodies.items() if hb.kind != "closure" and hb.file == r.file and
                 any(callee_name(t) == n_ for _, t in r.calls()) and any((callee_name(t2) or "").endswith("Graph::add_node_with_type") for _, t2 in hb.calls())]
    n = 0
    for b in fam:
        fl = Flow(facts, b, {"graphs::Node::add_annotation": [0]})
        adds = {bb for bb, t in b.calls() if (callee_name(t) or "").endswith("Graph::add_node_with_type") and not b.is_cleanup(bb)}
        # helpers that create the node and hand it back (`add_node_without_inlining(..) -> Result<Node>`)
        for bb, t in b.calls():
            hb = facts.bodies.get(callee_name(t) or "")
            if hb is None or hb.kind == "closure" or hb.file != b.file or b.is_cleanup(bb) or "graphs::Node" not in hb.local_ty(0):
                continue
            hfl = Flow(facts, hb)
            hadds = {x for x, t2 in hb.calls() if (callee_name(t2) or "").endswith("Graph::add_node_with_type") and not hb.is_cleanup(x)}
            rets = C.return_blocks(hb)
            if hadds and rets and all(any(o[0] == "call" and o[1] in hadds for o in hfl.origins([0], (r_, None))) for r_ in rets):
                adds.add(bb)
        for bb, t in b.calls():
            if callee_name(t) != "graphs::Node::add_annotation" or b.is_cleanup(bb):
                continue
            if not any(o[0] == "call" and o[2] == "graphs::Node::get_annotations" for o in fl.origins(t["args"][1], (bb, None))):
                continue
            n += 1
            recv = {o for o in fl.origins(t["args"][0], (bb, None)) if o[0] == "call"}
            ok = bool(recv) and all(o[1] in adds for o in recv)
            rep.ob(rid, "%s|annotation-target#%d" % (b.id.split("::")[-1], n), ok,
                   "annotations are put on the node created by add_node_with_type in this iteration" if ok else
                   "annotations are put on a node obtained from %s: for the second inlined copy of a body that is the first copy's "
                   "node, so the later copies lose their Send markers" % sorted(o[2].split("::")[-1] for o in recv), b.loc(bb))
    rep.anchor(rid, "recursively_inline_graph|add_annotation fed by get_annotations", n >= 1)
