"""C08 — custom-operation instantiation never collides (name injectivity) + cache-key agreement."""
from ..flow import Flow
from ..facts import callee_name

TRAIT = "custom_ops::CustomOperationBody"


def leaves(facts, adt_path, prefix=(), depth=0):
    """leaf field paths (tuples of field names) of a struct, recursing through crate-local struct-typed fields"""
    a = facts.adts.get(adt_path)
    if a is None or a["kind"] != "struct" or depth > 4:
        return [prefix] if prefix else []
    out = []
    for f in a["variants"][0]["fields"]:
        sub = facts.adts.get(f["adt"]) if f["adt"] else None
        if sub is not None and sub["kind"] == "struct" and f["ty"] == f["adt"]:
            out.extend(leaves(facts, f["adt"], prefix + (f["name"],), depth + 1))
        else:
            out.append(prefix + (f["name"],))
    return out


def consumed_self_paths(facts, body):
    """paths rooted at `self` (param 1) whose value is consumed by a call argument, a switch or an operator"""
    fl = Flow(facts, body)
    paths = set()

    def add(op, at):
        if op[0] == "k":
            return
        for o in fl.origins(op, at):
            if o[0] == "param" and o[1] == 1:
                paths.add(o[2])

    for bb in range(body.nblocks()):
        for j, s in enumerate(body.stmts(bb)):
            if s[0] != "=":
                continue
            rv = s[2]
            if rv[0] == "bin":
                add(rv[2], (bb, j))
                add(rv[3], (bb, j))
            elif rv[0] == "un":
                add(rv[2], (bb, j))
            elif rv[0] == "cast" and rv[1] not in ("Transmute", "PtrToPtr"):
                add(rv[2], (bb, j))
            elif rv[0] == "discr":
                add(["c", rv[1]], (bb, j))
        t = body.term(bb)
        if t["k"] == "call":
            for a in t["args"]:
                add(a, (bb, None))
        elif t["k"] == "switch":
            add(t["op"], (bb, None))
    return paths


def literal_signature(body):
    sig = []
    for bb in range(body.nblocks()):
        for s in body.stmts(bb):
            if s[0] == "=":
                for op in _ops_of_rvalue(s[2]):
                    if op[0] == "k" and (op[1].startswith("&[u8") or op[1] == "&str"):
                        sig.append(op[2])
        t = body.term(bb)
        if t["k"] == "call":
            for op in t["args"]:
                if op[0] == "k" and (op[1].startswith("&[u8") or op[1] == "&str"):
                    sig.append(op[2])
    return tuple(sig)


def _ops_of_rvalue(rv):
    k = rv[0]
    if k in ("use", "repeat"):
        return [rv[1]]
    if k == "bin":
        return [rv[2], rv[3]]
    if k in ("un",):
        return [rv[2]]
    if k == "cast":
        return [rv[2]]
    if k == "agg":
        return rv[2]
    return []


def identity_leaves(facts, adt, rep):
    """leaves that take part in the operation's identity (derived PartialEq = all fields)"""
    lv = leaves(facts, adt)
    im = facts.impl_of("std::cmp::PartialEq", adt)
    if im is None:
        return lv, "no PartialEq impl found; all fields assumed"
    if im["derived"]:
        return lv, "derived PartialEq/Hash: all fields"
    eq = None
    for f in im["fns"]:
        if f.endswith("::eq"):
            eq = facts.body(f)
    if eq is None:
        return lv, "manual PartialEq without analysable eq; all fields assumed"
    used = consumed_self_paths(facts, eq)
    keep = [l for l in lv if any(_related(l, p) for p in used)]
    return keep, "manual PartialEq: fields read by eq"


def _related(leaf, path):
    n = min(len(leaf), len(path))
    return leaf[:n] == path[:n]


def run(facts, rep, tier):
    rep.rule("C08.N", "every field of a custom operation's identity (derived Eq/Hash fields, recursively through "
                      "crate-local structs) flows into the string returned by its get_name; otherwise two "
                      "parameterisations get the same graph name and run_instantiation_pass fails with "
                      "'graph names must be unique'")
    rep.rule("C08.U", "the literal text of get_name differs between distinct custom operations")
    rep.rule("C08.K", "instantiation cache key = (operation identity, argument types): Instantiation derives "
                      "PartialEq+Eq+Hash over exactly {op, arguments_types}; CustomOperation eq/hash delegate to the body")
    impls = facts.impls_of_trait(TRAIT)
    impls = [im for im in impls if im["crate"] == "ciphercore_base"]
    rep.floor("C08.N", "impl CustomOperationBody", len(impls), 40)
    sigs = {}
    nleaves = 0
    for im in sorted(impls, key=lambda x: x["self"]):
        adt = im["adt"]
        gn = None
        for f in im["fns"]:
            if f.endswith("::get_name"):
                gn = facts.body(f)
        short = im["self"]
        if gn is None:
            rep.fail("C08.N", "%s|get_name" % short, "get_name body not found for %s" % short)
            continue
        lv, how = identity_leaves(facts, adt, rep)
        used = consumed_self_paths(facts, gn)
        if not lv:
            rep.ob("C08.N", "%s|<no fields>" % short, True, "unit-like operation: name is a constant", gn.loc())
        for leaf in lv:
            nleaves += 1
            ok = any(_related(leaf, p) for p in used)
            rep.ob("C08.N", "%s|%s" % (short, ".".join(leaf)), ok,
                   ("field `%s` of %s is part of the operation's identity (%s) but does not flow into get_name: "
                    "two instances differing only in it collide on the instantiated graph's name"
                    % (".".join(leaf), short, how)) if not ok else "field flows into get_name (%s)" % how,
                   gn.loc(), {"fields_read_by_get_name": sorted(".".join(p) for p in used)})
        sig = literal_signature(gn)
        if sig:
            sigs.setdefault(sig, []).append((short, gn.loc()))
        else:
            rep.note("C08.U: %s has no literal text in get_name (delegates); not compared" % short)
    for sig, who in sorted(sigs.items()):
        for (short, loc) in who:
            rep.ob("C08.U", short, len(who) == 1,
                   "get_name literal %r is shared by %s" % (sig, [w[0] for w in who]) if len(who) > 1 else
                   "literal %r is unique" % (sig,), loc)
    rep.analysed["custom_operation_impls"] = len(impls)
    rep.analysed["identity_leaf_fields"] = nleaves
    # ---- C08.K
    inst = facts.adts.get("custom_ops::Instantiation")
    if rep.anchor("C08.K", "custom_ops::Instantiation", inst):
        fields = [f["name"] for f in inst["variants"][0]["fields"]]
        rep.ob("C08.K", "Instantiation.fields", set(fields) == {"op", "arguments_types"},
               "Instantiation fields are %s" % fields)
        for tr in ("std::cmp::PartialEq", "std::cmp::Eq", "std::hash::Hash"):
            im = facts.impl_of(tr, "custom_ops::Instantiation")
            rep.ob("C08.K", "Instantiation.derive:%s" % tr.split("::")[-1], im is not None and im["derived"],
                   "%s for Instantiation must be derived (covers all fields)" % tr)
    # the two caches keyed by Instantiation
    for adt, field in (("type_inference::TypeInferenceWorker", "cached_instantiations"),):
        a = facts.adts.get(adt)
        if rep.anchor("C08.K", adt, a):
            f = [x for x in a["variants"][0]["fields"] if x["name"] == field]
            rep.ob("C08.K", "%s.%s" % (adt, field), bool(f) and "custom_ops::Instantiation" in f[0]["ty"],
                   "type checker's instantiation cache is keyed by Instantiation: %s" % (f[0]["ty"] if f else "missing"))
    # CustomOperation eq / hash delegate to the body
    for tr, meth, callee_pat in (("std::cmp::PartialEq", "eq", "DynEqHash"), ("std::hash::Hash", "hash", "DynEqHash")):
        im = facts.impl_of(tr, "custom_ops::CustomOperation")
        if not rep.anchor("C08.K", "impl %s for CustomOperation" % tr, im):
            continue
        b = None
        for f in im["fns"]:
            if f.endswith("::" + meth):
                b = facts.body(f)
        if not rep.anchor("C08.K", "CustomOperation::%s body" % meth, b):
            continue
        names = [callee_name(t) or "" for _, t in b.calls()]
        defs = [t["f"].get("def", "") for _, t in b.calls()]
        ok = any(callee_pat in n for n in names + defs)
        rep.ob("C08.K", "CustomOperation::%s delegates" % meth, ok,
               "CustomOperation::%s calls %s" % (meth, [n for n in names]), b.loc())


# ============================================================================ C08.G
NAMING_SINKS = ("graphs::Graph::set_name", "graphs::Context::set_graph_name")


def glue_by_identity(facts, rep):
    """the reported name is only ever used to *name* the glued graph; instantiations are found and cached by identity"""
    rep.rule("C08.G", "in run_instantiation_pass the string returned by Instantiation::get_name flows only into set_name: it is "
                      "never used to look a graph up or to decide whether an instantiation was already glued (two instantiations "
                      "with equal names would be merged silently); the glued cache is keyed by Instantiation")
    from ..flow import Flow
    for fname in ["custom_ops::run_instantiation_pass"] + [c.id for c in facts.closures_of("custom_ops::run_instantiation_pass")]:
        b = facts.body(fname)
        if not rep.anchor("C08.G", fname, b):
            continue
        fl = Flow(facts, b)
        gets = [bb for bb, t in b.calls() if callee_name(t) == "custom_ops::Instantiation::get_name"]
        n = 0
        for bb, t in b.calls():
            if b.is_cleanup(bb):
                continue
            cn = callee_name(t) or ""
            for i, a in enumerate(t["args"]):
                if a[0] == "k":
                    continue
                ors = fl.origins(a, (bb, None))
                if any(o[0] == "call" and o[1] in gets for o in ors):
                    n += 1
                    ok = cn in NAMING_SINKS or cn.startswith(("std::", "core::", "alloc::", "<std::", "<alloc::")) and \
                        cn.endswith(("::deref", "::as_str", "::clone", "::borrow", "::as_ref", "::to_owned", "::to_string"))
                    rep.ob("C08.G", "%s|name-use:%s" % (fname.split("::")[-1], cn.split("::")[-1]), ok,
                           "the reported name flows into %s%s" % (cn, "" if ok else
                           ": names are not identities - an instantiation must be found by (op, argument types), not by its name"),
                           b.loc(bb))
        # names copied from the graphs being glued: collide as soon as two instantiations bring equally named auxiliary graphs
        for bb, t in b.calls():
            if b.is_cleanup(bb) or callee_name(t) not in NAMING_SINKS:
                continue
            copied = [o for a in t["args"] if a[0] != "k" for o in fl.origins(a, (bb, None))
                      if o[0] == "call" and o[2] in ("graphs::Graph::get_name", "graphs::Context::get_graph_name")]
            if copied:
                aux = _named_aux_graphs(facts)
                rep.ob("C08.G", "%s|copied-graph-name" % fname.split("::")[-1], not aux,
                       "glued graphs inherit the name of the graph they are copied from, and no instantiate() can produce a named "
                       "auxiliary graph" if not aux else
                       "glued graphs inherit the name of the graph they are copied from, while instantiate() bodies produce named "
                       "auxiliary graphs (%s): names are unique per context only, so two instantiations that bring the same "
                       "auxiliary graph make run_instantiation_pass fail with 'graph names must be unique'" % aux[0], b.loc(bb))
        if fname == "custom_ops::run_instantiation_pass":
            rep.floor("C08.G", "uses of Instantiation::get_name in run_instantiation_pass", n, 1)
            # the cache of glued instantiations is a HashMap keyed by Instantiation
            keyed = [l for l in range(len(b.locals)) if b.local_ty(l).startswith("std::collections::HashMap<custom_ops::Instantiation")]
            rep.ob("C08.G", "glued-cache-key", bool(keyed),
                   "glued_instantiations_cache is a HashMap keyed by Instantiation (%d local(s))" % len(keyed), b.loc())


def eq_reads_leaf(facts, adt, leaf, tr="std::cmp::PartialEq", meth="eq"):
    """does equality (or hashing) of `adt` depend on leaf path `leaf`, following crate-local struct fields level by level;
    returns (bool, description of the level that drops it)"""
    cur = adt
    for i, fname in enumerate(leaf):
        a = facts.adts.get(cur)
        if a is None or a["kind"] != "struct":
            return True, ""
        im = facts.impl_of(tr, cur)
        if im is None:
            return True, ""         # not comparable at this level: nothing to say
        if not im["derived"]:
            body = None
            for f in im["fns"]:
                if f.endswith("::" + meth):
                    body = facts.body(f)
            if body is None:
                return True, ""
            used = consumed_self_paths(facts, body)
            if not any(_related(tuple(leaf[i:]), p_) for p_ in used):
                return False, "manual %s of %s reads only %s" % (tr.split("::")[-1], cur, sorted(".".join(x) for x in used))
            # a manual impl that reads the field compares it as a whole or delegates: continue below
        fld = [f for f in a["variants"][0]["fields"] if f["name"] == fname]
        if not fld or not fld[0]["adt"] or fld[0]["ty"] != fld[0]["adt"]:
            return True, ""
        cur = fld[0]["adt"]
    return True, ""


def behaviour_fields_in_identity(facts, rep):
    """C08.E: a parameter that changes the instantiated graph is part of the cache key"""
    rep.rule("C08.E", "every field of a custom operation that its instantiate() consumes (so the produced graph depends on it) takes "
                      "part in the operation's equality AND hash at every nesting level (derived, or read by the manual impl): "
                      "otherwise two parameterisations are one cache key and the second silently calls the first one's graph")
    impls = [im for im in facts.impls_of_trait(TRAIT) if im["crate"] == "ciphercore_base"]
    n = 0
    for im in sorted(impls, key=lambda x: x["self"]):
        adt = im["adt"]
        inst = None
        for f in im["fns"]:
            if f.endswith("::instantiate"):
                inst = facts.body(f)
        if inst is None:
            continue
        used = set(consumed_self_paths(facts, inst))
        for c in facts.closures_of(inst.id):
            pass
        for leaf in leaves(facts, adt):
            if not any(_related(leaf, p_) for p_ in used):
                continue
            n += 1
            for tr, meth in (("std::cmp::PartialEq", "eq"), ("std::hash::Hash", "hash")):
                ok, why = eq_reads_leaf(facts, adt, leaf, tr, meth)
                rep.ob("C08.E", "%s|%s|%s" % (im["self"], ".".join(leaf), meth), ok,
                       "field `%s` is consumed by instantiate() and takes part in %s" % (".".join(leaf), meth) if ok else
                       "field `%s` of %s changes the instantiated graph but is ignored by %s (%s): two parameterisations that "
                       "differ only in it share one instantiation" % (".".join(leaf), im["self"], meth, why), inst.loc())
    rep.analysed["behaviour_leaf_fields"] = n
    rep.floor("C08.E", "fields consumed by instantiate()", n, 15)


def _named_aux_graphs(facts):
    """call chains from some instantiate() to a graph-naming call (e.g. a nested run_instantiation_pass)"""
    from .. import callgraph as CG
    impls = [im for im in facts.impls_of_trait(TRAIT) if im["crate"] == "ciphercore_base"]
    seeds = [f for im in impls for f in im["fns"] if f.endswith("::instantiate")]
    seen = CG.reach(facts, seeds)
    out = []
    for n in sorted(seen):
        for bb, t in facts.bodies[n].calls():
            if callee_name(t) in NAMING_SINKS and not facts.bodies[n].is_cleanup(bb) and n != "graphs::Graph::set_name":
                out.append(" -> ".join(x.split("::")[-1] if not x.startswith("<") else x.split(" as ")[0].split("::")[-1] + "::instantiate"
                                       for x in CG.chain(seen, n)))
    return out


def custom_nodes_typed_by_instantiation(facts, rep):
    """C08.T: 'every context whose nodes type-check can be instantiated' - the type of a custom node is the output type of its
    instantiation (possibly served from the cache keyed by Instantiation), never a shortcut that skips instantiate()"""
    from .. import vcai as V
    rep.rule("C08.T", "in TypeInferenceWorker::process_node, under Operation::Custom, the type registered for the node derives only "
                      "from the instantiation cache or from get_type() of the output node of op.instantiate(..): a fast path that "
                      "types a custom node without instantiating it accepts contexts that run_instantiation_pass then rejects")
    pn = facts.body("type_inference::TypeInferenceWorker::process_node")
    if not rep.anchor("C08.T", "type_inference::TypeInferenceWorker::process_node", pn):
        return
    vidx = {n: i for i, n in V.variants(facts)}
    if not rep.anchor("C08.T", "Operation::Custom variant", "Custom" in vidx):
        return
    live = V.Interp(facts, vidx["Custom"]).run(pn).normal_blocks()
    fl = Flow(facts, pn, live_blocks=set(live))
    regs = [bb for bb, t in pn.calls() if bb in live and (callee_name(t) or "").endswith("TypeInferenceWorker::register_result")]
    if not rep.anchor("C08.T", "process_node|register_result under Operation::Custom", regs):
        return
    inst = [bb for bb, t in pn.calls() if bb in live and (t["f"].get("def") or callee_name(t) or "").endswith("CustomOperation::instantiate")
            or (bb in live and (callee_name(t) or "").endswith("CustomOperation::instantiate"))]
    for k, bb in enumerate(regs):
        t = pn.term(bb)
        ors = {o for o in fl.origins(t["args"][2], (bb, None)) if o[0] != "const"}
        bad = []
        for o in ors:
            if o[0] == "call" and o[2].startswith("std::collections::HashMap") and o[2].endswith("::get"):
                continue
            if o[0] == "param" and o[1] == 1 and o[2] and o[2][0] == "cached_instantiations":
                continue        # served from the instantiation cache (keyed by Instantiation, C08.K)
            if o[0] == "call" and o[2] == "graphs::Node::get_type":
                src = fl.origins(pn.term(o[1])["args"][0], (o[1], None))
                if src and all(x[0] == "call" and x[2] in ("graphs::Graph::get_output_node",) or (x[0] == "call" and x[1] in inst) for x in src):
                    continue
            if o[0] == "call" and o[1] in inst:
                continue
            bad.append(o)
        rep.ob("C08.T", "process_node|custom-type#%d" % k, bool(ors) and not bad,
               "the type registered for a custom node comes from the instantiation (cache or instantiate().output.get_type())"
               if ors and not bad else
               "a custom node is given a type that does not come from its instantiation (%s): the node type-checks without "
               "instantiate() having validated the arguments" % sorted(str(x[:3]) for x in bad), pn.loc(bb))


_run_n = run


def run(facts, rep, tier):
    _run_n(facts, rep, tier)
    glue_by_identity(facts, rep)
    behaviour_fields_in_identity(facts, rep)
    custom_nodes_typed_by_instantiation(facts, rep)
