"""C10 — structural clause: no lossy (<=64-bit) reader is applied to element data of an arbitrary scalar type."""
import re
from ..flow import Flow
from ..facts import callee_name
from .. import cfg as C
from .. import vcai as V
from .. import callgraph as CG

NARROW = re.compile(r"^data_values::Value::(to_flattened_array_(u8|i8|u16|i16|u32|i32|u64|i64)|to_(u8|i8|u16|i16|u32|i32|u64|i64))$")
NARROW_BYTES = ("bytes::vec_u64_from_bytes",)
WIDE = ("U128", "I128", "UINT128", "INT128")
EXTRA = {
    "data_types::Type::get_scalar_type": [0], "data_types::array_type": [1], "data_types::scalar_type": [0],
    "data_types::vector_type": [1], "data_types::Type::get_shape": [],
}
# (Operation variant, dependency index) whose scalar type is fixed (<= 64 bit) by type inference; reason
CONSTRAINED = {}


def constrain(variant, dep, st, where):
    CONSTRAINED[(variant, dep)] = (st, where)


constrain("Gather", 1, "UINT64", "process_node: indices must be an array of UINT64")
constrain("ApplyPermutation", 1, "UINT64", "process_node: permutation must be a UINT64 array")
constrain("InversePermutation", 0, "UINT64", "process_node: input must be a UINT64 array")
constrain("CuckooToPermutation", 0, "UINT64", "process_node: cuckoo map is a UINT64 array")
constrain("DecomposeSwitchingMap", 0, "UINT64", "process_node: switching map is a UINT64 array")
constrain("CuckooHash", 0, "BIT", "process_node: input must be a binary array")
constrain("CuckooHash", 1, "BIT", "process_node: hash matrix must be a binary array")
constrain("SegmentCumSum", 1, "BIT", "process_node: second argument must be a binary array")
constrain("VectorGet", 1, "UINT64", "process_node: index must be a UINT64 scalar")
constrain("RandomPermutation", "result", "UINT64", "result is array_type([n], UINT64)")
constrain("PermutationFromPRF", "result", "UINT64", "result is array_type([n], UINT64)")
constrain("MixedMultiply", 1, "BIT", "process_node: second argument must be binary")
constrain("Assert", 0, "BIT", "process_node: condition must be a scalar bit")


# variants whose arm reads element data of a value found INSIDE a dependency (a column of a table) whose scalar type type
# inference fixes: variant -> (scalar type, where)
VARIANT_INNER = {
    "Sort": ("BIT", "process_node: the key array must be 2-dimensional BIT"),
}

# helper-level sites whose scalar type is fixed by type inference: (function suffix, reader, ordinal) -> reason
CONSTRAINED_SITES = {
    ("extract_columns", "to_flattened_array_u8", 0): "null column: check_table_and_extract_column_types requires a binary array",
    ("extract_columns", "to_flattened_array_u8", 1): "column mask: ColumnType::get_mask_type is array_type([n], BIT) (checked by check_column_mask_type)",
}


def evaluator_slice(facts):
    seeds = [n for n, b in facts.bodies.items() if n.endswith("::evaluate_node") and "SimpleEvaluator" in n
             and b.impl and b.impl.get("trait")]
    layer = CG.reach(facts, seeds, stop=lambda n: n in facts.bodies and "/evaluators/" not in facts.bodies[n].file)
    return seeds, {n: v for n, v in layer.items() if "/evaluators/" in facts.bodies[n].file}


def type_operand(t):
    n = callee_name(t)
    if n in NARROW_BYTES:
        return t["args"][1]
    return t["args"][1] if len(t["args"]) > 1 else None


def classify(facts, b, fl, op, at):
    """list of (kind, detail) for the scalar type an operand may carry"""
    out = []
    for o in fl.origins(op, at):
        if o[0] == "const":
            m = re.search(r"(BIT|U?INT(8|16|32|64|128)|ScalarType::\w+)", o[2])
            out.append(("const", m.group(1) if m else o[2]))
        elif o[0] == "agg" and o[3].startswith("data_types::ScalarType::"):
            out.append(("const", o[3].split("::")[-1]))
        elif o[0] == "call" and o[2] == "graphs::Node::get_type":
            t = b.term(o[1])
            r = t["args"][0]
            ro = fl.origins(r, (o[1], None))
            ip = fl._index_path(r) if r[0] != "k" else None
            if any(x[0] == "call" and x[2] == "graphs::Node::get_node_dependencies" for x in ro):
                k = ip[1][0] if ip and ip[1] else "*"
                out.append(("dep", k))
            elif all(x[0] == "param" for x in ro) and ro:
                out.append(("node", sorted(x[1] for x in ro)))
            else:
                out.append(("generic", "get_type of %s" % sorted(set(x[2] if x[0] == "call" else x[0] for x in ro))))
        elif o[0] == "param":
            out.append(("param", o[1]))
        elif o[0] in ("via", "index", "cast"):
            continue
        elif o[0] == "call":
            out.append(("generic", "result of %s" % o[2].split("::")[-1]))
        elif o[0] == "upvar":
            out.append(("upvar", o[1]))
        else:
            out.append(("generic", str(o[:2])))
    return out


def run(facts, rep, tier):
    rep.rule("C10.W", "every <=64-bit reader of element data (Value::to_flattened_array_{u8..i64}, Value::to_{u8..i64}, "
                      "vec_u64_from_bytes) reachable from SimpleEvaluator::evaluate_node is applied with a scalar type that is "
                      "provably <= 64 bit: a constant, a constructor over a constant, or a dependency whose scalar type is fixed "
                      "by type inference (table); otherwise 128-bit elements are silently truncated")
    seeds, layer = evaluator_slice(facts)
    if not rep.anchor("C10.W", "SimpleEvaluator::evaluate_node", seeds):
        return
    ev = facts.bodies[seeds[0]]
    rep.analysed["evaluator_slice_bodies"] = len(layer)
    rep.tables["constrained_operands"] = {"%s/%s" % k: "%s: %s" % v for k, v in CONSTRAINED.items()}
    rep.tables["constrained_inner"] = {k: "%s: %s" % v for k, v in VARIANT_INNER.items()}
    rep.tables["constrained_sites"] = {"%s|%s#%d" % k: v for k, v in CONSTRAINED_SITES.items()}
    vs = V.variants(facts)
    callers = {}
    for name in layer:
        b = facts.bodies[name]
        for bb, t in b.calls():
            c = callee_name(t)
            if c in layer and not b.is_cleanup(bb):
                callers.setdefault(c, []).append((name, bb))
    flows = {}

    def flow_of(n):
        if n not in flows:
            flows[n] = Flow(facts, facts.bodies[n], EXTRA)
        return flows[n]

    # which Operation variants can reach a block of evaluate_node
    reach_by_variant = {}
    for idx, name in vs:
        reach_by_variant[name] = V.Interp(facts, idx).run(ev).normal_blocks()

    def variants_reaching(bb):
        return [name for _, name in vs if bb in reach_by_variant[name]]

    def judge(name, bb, op, depth=0, seen=()):
        """-> list of problems (strings); empty = provably narrow-safe"""
        b = facts.bodies[name]
        fl = flow_of(name)
        probs = []
        for kind, det in classify(facts, b, fl, op, (bb, None)):
            if kind == "const":
                if any(w in det for w in WIDE):
                    probs.append("constant 128-bit scalar type %s" % det)
            elif kind in ("dep", "node"):
                if name != ev.id:
                    probs.append("type of a graph node read in helper %s" % name.split("::")[-1])
                    continue
                for v in variants_reaching(bb):
                    key = (v, det if kind == "dep" else "result")
                    if key not in CONSTRAINED:
                        probs.append("Operation::%s reads %s through a <=64-bit reader" % (
                            v, ("dependency %s" % det) if kind == "dep" else "its result type"))
            elif kind == "param":
                cs = callers.get(name, [])
                if not cs or depth >= 2 or name in seen:
                    probs.append("parameter _%d of %s carries the element type (no analysable caller)" % (det, name.split("::")[-1]))
                    continue
                for (cn, cbb) in cs:
                    t = facts.bodies[cn].term(cbb)
                    if det - 1 < len(t["args"]):
                        for p in judge(cn, cbb, t["args"][det - 1], depth + 1, seen + (name,)):
                            probs.append("via %s: %s" % (name.split("::")[-1], p))
            else:
                vsr = variants_reaching(bb) if name == ev.id else []
                if vsr and all(v in VARIANT_INNER for v in vsr):
                    continue
                probs.append("scalar type comes from %s (arbitrary)" % det)
        return sorted(set(probs))

    n_sites = 0
    for name in sorted(layer):
        b = facts.bodies[name]
        ordn = {}
        for bb, t in b.calls():
            cn = callee_name(t) or ""
            if not (NARROW.match(cn) or cn in NARROW_BYTES) or b.is_cleanup(bb):
                continue
            op = type_operand(t)
            if op is None:
                continue
            n_sites += 1
            short = cn.split("::")[-1]
            k = ordn.get(short, 0)
            ordn[short] = k + 1
            probs = judge(name, bb, op)
            tabled = CONSTRAINED_SITES.get((name.split("::")[-1], short, k))
            if probs and tabled:
                probs = []
            rep.ob("C10.W", "%s|%s#%d" % (name.split("::")[-1] if "::evaluate_node" not in name else "evaluate_node", short, k),
                   not probs,
                   "%s: %s" % (short, "; ".join(probs)) if probs else "%s is only applied to <=64-bit scalar types" % short,
                   b.loc(bb))
    rep.analysed["narrow_reader_sites"] = n_sites
    rep.floor("C10.W", "<=64-bit reader call sites in the evaluator slice", n_sites, 8)
