"""C06 — graph optimisation preserves interface and bookkeeping (structural clauses)."""
from ..flow import Flow
from ..facts import callee_name
from .. import cfg as C
from .. import vcai as V
from . import C04
from .common import copy_helpers, is_add_call, pass_body

PASSES = {
    "constants": "optimizer::constant_optimizer::optimize_graph_constants",
    "meta": "optimizer::meta_operation_optimizer::optimize_graph_meta_operations",
    "duplicates": "optimizer::duplicates_optimizer::optimize_graph_duplicates",
    "dangling": "optimizer::dangling_nodes_optimizer::optimize_graph_dangling_nodes",
}
COPIERS = dict(PASSES)
COPIERS["uniquify"] = "mpc::mpc_compiler::uniquify_prf_id"
EXTRA = {"graphs::Node::add_annotation": [0], "graphs::Node::set_name": [0], "graphs::Node::set_as_output": [0]}
ADD_TYPED = "graphs::Graph::add_node_with_type"
# who may call add_node_with_type (file suffix or function) -> reason
TYPED_CALLERS = {
    "optimizer/": "copies a node of an already type-checked graph",
    "inline/inline_ops.rs": "copies a node of an already type-checked graph while inlining",
    "mpc/mpc_compiler.rs": "uniquify_prf_id copies nodes of the compiled graph",
    "graphs.rs": "definition of the API (add_node_with_type -> add_node_internal)",
}
REORDER = ("::rev", "::sort", "::sort_by", "::sort_by_key", "::sort_unstable", "::reverse", "::filter", "::skip",
           "::step_by", "::take", "::retain", "::dedup", "::swap", "::filter_map", "::skip_while", "::take_while")


def order_hook(fl, bb, t, name):
    if name and name.endswith(REORDER) and (name.startswith(("std::", "core::", "alloc::", "<std::", "<core::", "<alloc::"))):
        return "opaque"
    return None


def _op_transformer_arg(facts, b, fl, call_bb):
    """a local closure `|op| -> Result<Operation>` that returns its argument unchanged or update_prf_id(argument):
    returns the operand (and point) of the operation handed to it at this call, else None"""
    t = b.term(call_bb)
    cb = facts.bodies.get(callee_name(t) or "")
    if cb is None or cb.kind != "closure" or len(t["args"]) != 2 or t["args"][1][0] == "k":
        return None
    cfl = Flow(facts, cb)
    okret = False
    for bb, j, place, rv in cb.assigns():
        if place == [0] and rv[0] == "agg" and rv[1].get("vn") == "Ok" and not cb.is_cleanup(bb):
            ors = cfl.origins(rv[2][0], (bb, j))
            if not ors or not all(o[0] == "param" and o[1] == 2 for o in ors):
                return None
            okret = True
    for bb, tt in cb.calls():
        if cb.is_cleanup(bb):
            continue
        # a call that defines the return value directly
        if any(d_[0] == 0 for d_ in [cfl.defs[i] for i in cfl.defs_of.get(0, [])] if d_[1] == bb and d_[2] is None):
            if callee_name(tt) != "graphs::Operation::update_prf_id":
                return None
            if not all(o[0] == "param" and o[1] == 2 for o in cfl.origins(tt["args"][0], (bb, None))):
                return None
            okret = True
    if not okret:
        return None
    tl = t["args"][1][1][0]
    for di in fl.defs_of.get(tl, []):
        _, db, dj = fl.defs[di]
        if db >= 0 and dj is not None:
            rv = b.stmts(db)[dj][2]
            if rv[0] == "agg" and rv[1].get("k") == "tuple" and len(rv[2]) == 1:
                return rv[2][0], (db, dj)
    return None


def run(facts, rep, tier):
    rep.rule("C06.A", "every pass that re-creates a node copies its annotations and its name: each path from add_node_with_type to "
                      "ContextMappings::insert_node passes through Node::get_annotations and copy_node_name/set_name, the annotations "
                      "added come from that call and are put on the node that is inserted into the mapping")
    rep.rule("C06.I", "nodes are visited in get_nodes() order (no reordering adaptor on the iterator of the node loop) and under "
                      "Operation::Input no pass skips the node")
    rep.rule("C06.T", "at every add_node_with_type site the operation operand comes from get_operation (possibly through "
                      "update_prf_id) and the type operand from get_type of the SAME node; only the tabled modules call it")
    rep.rule("C06.O", "each pass marks as output the node it maps the old output to; optimize_context chains the four mappings in "
                      "data-dependence order constants -> meta -> duplicates -> dangling")
    rep.rule("C06.B", "A2B/B2A cancellation in the meta pass is guarded by equality of scalar types")
    vs = V.variants(facts)
    vidx = {n: i for i, n in vs}
    n_sites = 0
    for short, fname in sorted(COPIERS.items()):
        if not rep.anchor("C06.A", fname, facts.body(fname)):
            continue
        b = pass_body(facts, fname)
        fl = Flow(facts, b, EXTRA)
        flo = Flow(facts, b, EXTRA, call_hook=order_hook)
        helpers = copy_helpers(facts)
        adds = [bb for bb, t in b.calls() if is_add_call(facts, t) and not b.is_cleanup(bb)]
        via = {bb: callee_name(b.term(bb)) for bb in adds if callee_name(b.term(bb)) in helpers}
        ins = [bb for bb, t in b.calls() if (callee_name(t) or "").endswith("ContextMappings::insert_node") and not b.is_cleanup(bb)]
        getann = [bb for bb, t in b.calls() if callee_name(t) == "graphs::Node::get_annotations" and not b.is_cleanup(bb)]
        names = [bb for bb, t in b.calls() if callee_name(t) in ("graphs::copy_node_name", "graphs::Node::set_name") and not b.is_cleanup(bb)]
        addann = [bb for bb, t in b.calls() if callee_name(t) == "graphs::Node::add_annotation" and not b.is_cleanup(bb)]
        if not (rep.anchor("C06.A", "%s|add_node_with_type" % short, adds) and rep.anchor("C06.A", "%s|insert_node" % short, ins)):
            continue
        errs = C.error_exit_blocks(b)
        for k, a in enumerate(adds):
            n_sites += 1
            if a in via:
                rep.ob("C06.A", "%s|annotations#%d" % (short, k), True,
                       "the node is re-created by the copy helper %s (%s)" % (via[a].split("::")[-1], helpers[via[a]]["why"]), b.loc(a))
                rep.ob("C06.A", "%s|name#%d" % (short, k), True, "name copied inside the copy helper %s" % via[a].split("::")[-1], b.loc(a))
                continue
            ok = bool(getann) and C.must_pass(b, a, ins, set(getann) | errs)
            rep.ob("C06.A", "%s|annotations#%d" % (short, k), ok,
                   "every path from add_node_with_type to insert_node reads the source node's annotations" if ok else
                   "a re-created node can reach the mapping without its annotations being read (Send/Private markers lost)", b.loc(a))
            ok = bool(names) and C.must_pass(b, a, ins, set(names) | errs)
            rep.ob("C06.A", "%s|name#%d" % (short, k), ok,
                   "every path from add_node_with_type to insert_node copies the node name" if ok else
                   "a re-created node can reach the mapping without its name being copied", b.loc(a))
        # the annotation that is added comes from get_annotations, and lands on the node that goes into the mapping
        mapped = set()
        for i in ins:
            mapped |= {o for o in fl.origins(b.term(i)["args"][2], (i, None)) if o[0] == "call"}
        good = False
        for x in addann:
            t = b.term(x)
            src = fl.origins(t["args"][1], (x, None))
            recv = {o for o in fl.origins(t["args"][0], (x, None)) if o[0] == "call"}
            if any(o[0] == "call" and o[2] == "graphs::Node::get_annotations" for o in src) and (recv & mapped):
                good = True
        if any(o[1] in via for o in mapped):
            good = True     # the copy helper puts the annotations on the node it returns, and that node is mapped
        rep.ob("C06.A", "%s|annotation-target" % short, good,
               "an add_annotation call puts the annotations read by get_annotations on a node that is inserted into the mapping", b.loc())
        # ---- C06.T
        for k, a in enumerate(adds):
            t = b.term(a)
            if a in via:
                rep.ob("C06.T", "%s|site#%d" % (short, k), True,
                       "operation and type both come from the node handed to the copy helper %s" % via[a].split("::")[-1], b.loc(a))
                continue
            op_or = fl.origins(t["args"][3], (a, None))
            ty_or = fl.origins(t["args"][4], (a, None))
            op_nodes, ok_op = set(), bool(op_or)
            for o in op_or:
                if o[0] == "call" and o[2] == "graphs::Node::get_operation":
                    op_nodes |= set(fl.origins(b.term(o[1])["args"][0], (o[1], None)))
                elif o[0] == "call" and o[2] == "graphs::Operation::update_prf_id":
                    for o2 in fl.origins(b.term(o[1])["args"][0], (o[1], None)):
                        if o2[0] == "call" and o2[2] == "graphs::Node::get_operation":
                            op_nodes |= set(fl.origins(b.term(o2[1])["args"][0], (o2[1], None)))
                        else:
                            ok_op = False
                elif o[0] == "call" and _op_transformer_arg(facts, b, fl, o[1]) is not None:
                    arg, at_ = _op_transformer_arg(facts, b, fl, o[1])
                    for o2 in fl.origins(arg, at_):
                        if o2[0] == "call" and o2[2] == "graphs::Node::get_operation":
                            op_nodes |= set(fl.origins(b.term(o2[1])["args"][0], (o2[1], None)))
                        else:
                            ok_op = False
                else:
                    ok_op = False
            ty_nodes, ok_ty = set(), bool(ty_or)
            for o in ty_or:
                if o[0] == "call" and o[2] == "graphs::Node::get_type":
                    ty_nodes |= set(fl.origins(b.term(o[1])["args"][0], (o[1], None)))
                else:
                    ok_ty = False
            same = bool(op_nodes) and op_nodes == ty_nodes
            rep.ob("C06.T", "%s|site#%d" % (short, k), ok_op and ok_ty and same,
                   ("operation from %s, type from %s, same source node: %s" % (
                       sorted(set(o[2].split("::")[-1] for o in op_or if o[0] == "call")),
                       sorted(set(o[2].split("::")[-1] if o[0] == "call" else o[0] for o in ty_or)), same))
                   if (ok_op and ok_ty and same) else
                   "the type recorded for the copied node is not get_type() of the node whose operation is copied "
                   "(op origins %s / type origins %s): a reload re-infers a different type" % (sorted(map(str, op_or)), sorted(map(str, ty_or))),
                   b.loc(a))
        # ---- C06.I order
        for k, a in enumerate(adds):
            t = b.term(a)
            src_nodes = set()
            if a in via:
                src_nodes |= set(flo.origins(t["args"][helpers[via[a]]["node"] - 1], (a, None)))
            for o in ([] if a in via else fl.origins(t["args"][3], (a, None))):
                if o[0] == "call" and o[2] == "graphs::Node::get_operation":
                    src_nodes |= set(flo.origins(b.term(o[1])["args"][0], (o[1], None)))
                elif o[0] == "call" and _op_transformer_arg(facts, b, fl, o[1]) is not None:
                    arg, at_ = _op_transformer_arg(facts, b, fl, o[1])
                    for o2 in fl.origins(arg, at_):
                        if o2[0] == "call" and o2[2] == "graphs::Node::get_operation":
                            src_nodes |= set(flo.origins(b.term(o2[1])["args"][0], (o2[1], None)))
            ok = bool(src_nodes) and all(o[0] == "call" and o[2] == "graphs::Graph::get_nodes" for o in src_nodes)
            rep.ob("C06.I", "%s|order#%d" % (short, k), ok,
                   "the copied node comes straight from the get_nodes() iteration (origins: %s)" % sorted(
                       set(o[2] if o[0] == "call" else o[0] for o in src_nodes)), b.loc(a))
        # ---- C06.I inputs kept: under Input, an iteration cannot reach the loop head again without creating the node
        lp = None
        for h, blocks in C.loops(b):
            if adds[0] in blocks and (lp is None or len(blocks) < len(lp[1])):
                lp = (h, blocks)
        if lp and short in PASSES:
            h, blocks = lp
            models = {}
            nk = facts.body("optimizer::duplicates_optimizer::NodeKey::new")
            if nk is not None:
                models["optimizer::duplicates_optimizer::NodeKey::new"] = \
                    lambda interp, body, bb_, t_, args, nk=nk: interp.run_callee(nk, [V.SUBJ, V.TOP])
            it = V.Interp(facts, vidx["Input"], call_models=models)
            res = it.run(b)
            removed = {(x, y) for x, y in C.edges(b) if (x, y) not in res.edges}
            start = [s for s in b.succs(h) if s in blocks]
            reach = C.reachable(b, start, removed_edges=removed, removed_blocks=set(adds) | errs)
            rep.ob("C06.I", "%s|input-kept" % short, h not in reach,
                   "under Operation::Input every iteration of the node loop creates the node (inputs are never dropped, merged or folded)"
                   if h not in reach else "an Input node can be skipped by this pass: the graph's input interface changes", b.loc(h))
        # ---- C06.O output
        outs = [bb for bb, t in b.calls() if callee_name(t) in ("graphs::Node::set_as_output", "graphs::Graph::set_output_node")
                and not b.is_cleanup(bb)]
        good = False
        for x in outs:
            t = b.term(x)
            a = t["args"][0] if callee_name(t).endswith("set_as_output") else t["args"][1]
            recv = {o for o in fl.origins(a, (x, None)) if o[0] == "call"}
            if recv & mapped or any(o[2].endswith("ContextMappings::get_node") for o in recv):
                good = True
        rep.ob("C06.O", "%s|output" % short, good,
               "the node marked as output is the one the old output is mapped to", b.loc())
    rep.floor("C06.A", "add_node_with_type sites in the copying passes", n_sites, 5)
    annotation_target_paths(facts, rep, vs)
    key_keeps_operand_order(facts, rep, vs)
    from . import C02
    C02.optimizer_keeps_transfers(facts, _Sub(rep, "C06"))
    typed_callers(facts, rep)
    chain(facts, rep)
    cancellation(facts, rep, vidx)
    # shared clauses
    tb = C04.tables(facts)
    C04.dangling(facts, _Sub(rep, "C06"), vs, vidx, tb)
    # "for the same random draws": an operation whose evaluation draws from the PRNG is neither folded nor merged
    sub = _Sub(rep, "C06")
    sub.rule("C04.R", "the evaluator arm of a variant uses the evaluator's PRNG iff is_randomizing(variant) is Ok(true) (shared with C04.R)")
    sub.rule("C04.F", "variants whose evaluation draws from the PRNG are never folded into constants (shared with C04.F, restricted to those variants)")
    sub.rule("C04.D", "variants whose evaluation draws from the PRNG are never merged by de-duplication (shared with C04.D, restricted to those variants)")
    C04.randomizing_complete(facts, sub, tb, vs, vidx)
    pv = C04.prng_variants(facts, vs)
    if rep.anchor("C06.R", "variants whose evaluator arm draws randomness", pv):
        C04.fold_and_merge_guards(facts, sub, tb, vidx, [(n, "randomness-drawing") for n in pv])


# operations whose result does not depend on the order of their two operands (elementwise, broadcasting is symmetric)
COMMUTATIVE = {"Add": "elementwise modular addition", "Multiply": "elementwise modular multiplication"}
REORDER_MUT = ("::sort", "::sort_unstable", "::sort_by", "::sort_by_key", "::sort_unstable_by", "::sort_unstable_by_key",
               "::reverse", "::swap", "::dedup", "::retain", "::rotate_left", "::rotate_right")


def key_keeps_operand_order(facts, rep, vs):
    """C06.K: the structural key of the duplicates pass keeps the dependency order except for commutative operations"""
    rep.rule("C06.K", "the de-duplication key lists the dependency ids in operand order: under every Operation variant that is not "
                      "commutative no reordering/de-duplicating call on the id vector is executable in NodeKey::new or the pass")
    rep.tables["commutative_operations"] = COMMUTATIVE
    for fname in ("optimizer::duplicates_optimizer::NodeKey::new", PASSES["duplicates"]):
        b = facts.body(fname)
        if not rep.anchor("C06.K", fname, b):
            continue
        sites = [bb for bb, t in b.calls() if (callee_name(t) or "").endswith(REORDER_MUT)
                 and (callee_name(t) or "").startswith(("std::", "core::", "alloc::", "<std::", "<[")) and not b.is_cleanup(bb)]
        bad = []
        if sites:
            for idx, name in vs:
                if name in COMMUTATIVE:
                    continue
                res = V.Interp(facts, idx).run(b)
                if any(s_ in res.blocks for s_ in sites):
                    bad.append(name)
        rep.ob("C06.K", fname.split("::")[-2] + "::" + fname.split("::")[-1], not bad,
               "no reordering of dependency ids (%d reordering call site(s), all confined to commutative operations)" % len(sites)
               if not bad else "dependency ids are reordered for non-commutative operation(s) %s: f(a,b) and f(b,a) are merged" % bad[:8],
               b.loc(sites[0]) if sites else b.loc())


def annotation_target_paths(facts, rep, vs):
    """C06.A (path form): within one loop iteration, if annotations were put on node X and afterwards another node Y
    (not derived from X) is chosen for the mapping, the markers end up on a node that is not the mapped one"""
    for short, fname in sorted(PASSES.items()):
        b = facts.body(fname)
        if b is None:
            continue
        ins = [bb for bb, t in b.calls() if (callee_name(t) or "").endswith("ContextMappings::insert_node") and not b.is_cleanup(bb)]
        addann = [bb for bb, t in b.calls() if callee_name(t) == "graphs::Node::add_annotation" and not b.is_cleanup(bb)]
        # a copy helper creates the node AND puts the annotations on it: its call site is an annotating site as well
        helper_sites = [bb for bb, t in b.calls() if callee_name(t) in copy_helpers(facts) and not b.is_cleanup(bb)]
        addann = addann + helper_sites
        if not ins or not addann:
            continue
        lp = None
        for h, blocks in C.loops(b):
            if ins[0] in blocks and (lp is None or len(blocks) < len(lp[1])):
                lp = (h, blocks)
        if lp is None:
            continue
        h, blocks = lp
        bad = {}
        models = {}
        nk = facts.body("optimizer::duplicates_optimizer::NodeKey::new")
        if nk is not None:
            models["optimizer::duplicates_optimizer::NodeKey::new"] = \
                lambda interp, body, bb_, t_, args, nk=nk: interp.run_callee(nk, [V.SUBJ, V.TOP])
        checked = 0
        for idx, vname in vs:
            res = V.Interp(facts, idx, call_models=models).run(b)
            live = res.normal_blocks()
            removed = {(x, y) for x, y in C.edges(b) if (x, y) not in res.edges}
            fl = Flow(facts, b, EXTRA, live_blocks=live)
            for a in addann:
                if a not in live:
                    continue
                ta = b.term(a)
                if a in helper_sites:
                    recv = {("call", a, callee_name(ta))}
                else:
                    if not any(o[0] == "call" and o[2] == "graphs::Node::get_annotations" for o in fl.origins(ta["args"][1], (a, None))):
                        continue
                    recv = {o for o in fl.origins(ta["args"][0], (a, None)) if o[0] == "call"}
                for i in ins:
                    if i not in live:
                        continue
                    op = b.term(i)["args"][2]
                    if op[0] == "k":
                        continue
                    l = fl.root_of(op[1][0])
                    for di in fl.reaching_defs(l, (i, None)):
                        _, db, dj = fl.defs[di]
                        if db < 0 or db not in live:
                            continue
                        checked += 1
                        if dj is None:
                            dor = fl._call_origins(db, (), ())
                        else:
                            dor = fl._rvalue_origins(b.stmts(db)[dj][2], (), (db, dj), ())
                        dor = {o for o in dor if o[0] == "call"}
                        if dor & recv or not dor:
                            continue
                        # path a -> def -> insert within one iteration
                        r1 = C.reachable_after(b, a, removed_edges=removed, removed_blocks={h})
                        if db in r1 or db == a:
                            r2 = C.reachable(b, [db], removed_edges=removed, removed_blocks={h})
                            if i in r2:
                                bad.setdefault(vname, sorted(set(o[2].split("::")[-1] for o in dor)))
        rep.ob("C06.A", "%s|annotated-node-is-mapped-node" % short, not bad,
               "on every path of one iteration the node that received the annotations is the node inserted into the mapping "
               "(%d (variant, definition) pairs examined)" % checked if not bad else
               "annotations are put on one node but another node (from %s) is then mapped, e.g. under Operation::%s: "
               "the markers are left on a node that the output does not use" % (list(bad.values())[0], sorted(bad)[:6]), b.loc(addann[0]))


class _Sub:
    """forwards obligations of a shared rule under this property's rule ids"""
    def __init__(self, rep, pid):
        self.rep, self.pid = rep, pid
        self.analysed, self.tables = rep.analysed, rep.tables

    def _r(self, rid):
        return self.pid + rid[3:]

    def rule(self, rid, text):
        self.rep.rule(self._r(rid), text)

    def ob(self, rid, *a, **k):
        return self.rep.ob(self._r(rid), *a, **k)

    def fail(self, rid, *a, **k):
        return self.rep.fail(self._r(rid), *a, **k)

    def floor(self, rid, *a, **k):
        return self.rep.floor(self._r(rid), *a, **k)

    def anchor(self, rid, *a, **k):
        return self.rep.anchor(self._r(rid), *a, **k)

    def note(self, m):
        self.rep.note(m)

    def _unjudged(self, rid, key, msg):
        self.rep._unjudged(self._r(rid), key, msg)


def typed_callers(facts, rep):
    n = 0
    for name, b in sorted(facts.bodies.items()):
        if b.crate != "ciphercore_base":
            continue
        for bb, t in b.calls():
            if callee_name(t) == ADD_TYPED and not b.is_cleanup(bb):
                n += 1
                ok = any(suf in b.file for suf in TYPED_CALLERS)
                rep.ob("C06.T", "caller|%s" % name, ok,
                       "add_node_with_type (skips type inference) called from %s%s" % (
                           b.file, "" if ok else ": not one of the modules that copy already-typed nodes"), b.loc(bb))
    rep.tables["typed_callers_allowed"] = TYPED_CALLERS
    rep.floor("C06.T", "call sites of add_node_with_type", n, 6)


def chain(facts, rep):
    oc = facts.body("optimizer::optimize::optimize_context")
    if not rep.anchor("C06.O", "optimize_context", oc):
        return
    fl = Flow(facts, oc, EXTRA)
    order = ["constants", "meta", "duplicates", "dangling"]
    site = {}
    for k in order:
        bs = [bb for bb, t in oc.calls() if callee_name(t) == PASSES[k]]
        if not rep.anchor("C06.O", "call of %s in optimize_context" % PASSES[k], bs):
            return
        site[k] = bs[0]
    # data dependence: pass k reads the graph that pass k-1 wrote
    for a, b2 in zip(order, order[1:]):
        out_prev = {o for o in fl.origins(oc.term(site[a])["args"][1], (site[a], None)) if o[0] == "call"}
        in_next = {o for o in fl.origins(oc.term(site[b2])["args"][0], (site[b2], None)) if o[0] == "call"}
        rep.ob("C06.O", "chain|%s->%s" % (a, b2), bool(out_prev & in_next),
               "the %s pass reads the graph written by the %s pass" % (b2, a), oc.loc(site[b2]))
    chains = [bb for bb, t in oc.calls() if (callee_name(t) or "").endswith("ContextMappings::new_from_chain")]
    if rep.anchor("C06.O", "ContextMappings::new_from_chain in optimize_context", chains):
        c = chains[0]
        # the slice argument derives from an array aggregate listing the four mappings
        arr = None
        for bb, j, place, rv in oc.assigns():
            if rv[0] == "agg" and rv[1].get("k") == "array" and len(rv[2]) == 4:
                srcs = []
                for op in rv[2]:
                    ors = fl.origins(op, (bb, j))
                    srcs.append(sorted(o[2] for o in ors if o[0] == "call"))
                arr = srcs
        want = [[PASSES[k]] for k in order]
        rep.ob("C06.O", "chain|mapping-order", arr == want,
               "mappings are chained in pass order: %s" % ([s[0].split("::")[-1] if s else "?" for s in (arr or [])]), oc.loc(c))


def _chain_hits(fl, b, l, alias, depth=0):
    """does local l derive (through refs/copies of single-definition temporaries) from a local in `alias`"""
    if l in alias:
        return True
    ds = fl.defs_of.get(l, [])
    if len(ds) != 1 or depth > 20:
        return False
    _, bb, j = fl.defs[ds[0]]
    if bb < 0 or j is None:
        return False
    rv = b.stmts(bb)[j][2]
    if rv[0] in ("ref", "raw"):
        return _chain_hits(fl, b, rv[2][0], alias, depth + 1)
    if rv[0] == "use" and rv[1][0] != "k":
        return _chain_hits(fl, b, rv[1][1][0], alias, depth + 1)
    return False


def cancellation(facts, rep, vidx):
    b = facts.body(PASSES["meta"])
    if not rep.anchor("C06.B", "meta pass", b):
        return
    fl = Flow(facts, b)
    # clones of the payload of a ProxyObject::A2B(..) pattern = the arithmetic node that replaces a B2A node
    alias = set()
    for bb, j, place, rv in b.assigns():
        if rv[0] in ("ref", "use"):
            pl = rv[2] if rv[0] == "ref" else (rv[1][1] if rv[1][0] != "k" else None)
            if pl and any(isinstance(p, str) and p.startswith("d") and p.endswith(":A2B") for p in pl[1:]) and len(place) == 1:
                alias.add(place[0])
    clones = []
    for bb, t in b.calls():
        if t["f"].get("def") == "std::clone::Clone::clone" and t["args"] and t["args"][0][0] != "k":
            if _chain_hits(fl, b, t["args"][0][1][0], alias):
                clones.append(bb)
    if not rep.anchor("C06.B", "replacement of a B2A node by the arithmetic node (clone of ProxyObject::A2B payload)", clones):
        return
    def is_st_eq(cn, ct, cbb):
        return (cn or "").endswith(("::eq", "::ne")) and any("ScalarType" in g for g in (ct["f"].get("ga") or [])) or \
               ((cn or "").endswith(("ScalarType as std::cmp::PartialEq>::eq", "ScalarType as std::cmp::PartialEq>::ne")))
    eqs = [bb for bb, t in b.calls() if is_st_eq(callee_name(t), t, bb)]
    if not rep.anchor("C06.B", "scalar-type equality test in the meta pass", eqs):
        return
    rem = set()
    for bb in range(b.nblocks()):
        if b.term(bb)["k"] != "switch":
            continue
        src = C.switch_source(b, bb)
        if src and src["kind"] == "call" and src["bb"] in eqs:
            is_ne = (src["callee"] or "").endswith("::ne")
            val = False if not is_ne else True   # "types differ"
            v = val if not src["neg"] else (not val)
            rem |= C.bool_switch_removed(b, bb, v)
    reach = C.reachable(b, [0], removed_edges=rem)
    bad = [c for c in clones if c in reach]
    rep.ob("C06.B", "b2a-cancellation-guarded", not bad,
           "when the scalar types differ the B2A node is not replaced by the arithmetic node" if not bad else
           "B2A(A2B(x)) can be replaced by x although the target scalar type differs from x's", b.loc(clones[0]))
