#!/usr/bin/env python3
"""E6 — the checker tested both ways.  For each seeded change under /verif/seeded/<name>/ (patch.diff + meta.json)
apply it to a scratch copy of /repo's working tree (outside /repo and /verif), re-extract facts from that copy and run
the listed property checks on them; assert `fires` (with the expected instance key) or `silent`.
Usage: tools/selftest.py [name ...] [--property Cxx] [--keep]"""
import json, os, shutil, subprocess, sys, tempfile, argparse

HERE = os.path.dirname(os.path.dirname(os.path.abspath(__file__)))
sys.path.insert(0, HERE)


def find_dir(name):
    for base in ("seeded", "mutants"):
        d = os.path.join(HERE, base, name)
        if os.path.exists(os.path.join(d, "meta.json")):
            return d
    raise SystemExit("no such seed/mutant: " + name)


def run_one(name, props=None, verbose=True):
    sdir = find_dir(name)
    meta = json.load(open(os.path.join(sdir, "meta.json")))
    expects = meta.get("expect", {})
    if props:
        expects = {p: e for p, e in expects.items() if p in props}
    observe_only = False
    if not expects and meta.get("missed") and (not props or meta.get("property") in props):
        expects = {meta["property"]: "observe"}
        observe_only = True
    if not expects:
        return True, "no expectations for the selected properties"
    tmp = tempfile.mkdtemp(prefix="ccverif-selftest-")
    try:
        work = os.path.join(tmp, "repo")
        subprocess.check_call(["rsync", "-a", "--exclude", "target", "--exclude", ".git", "/repo/", work + "/"])
        r = subprocess.run(["git", "apply", "--unsafe-paths", "--directory", work, os.path.join(sdir, "patch.diff")],
                           cwd="/", stdout=subprocess.PIPE, stderr=subprocess.STDOUT, text=True)
        if r.returncode != 0:
            r = subprocess.run(["patch", "-p1", "-d", work, "-i", os.path.join(sdir, "patch.diff")],
                               stdout=subprocess.PIPE, stderr=subprocess.STDOUT, text=True)
            if r.returncode != 0:
                return False, "patch does not apply: " + r.stdout[-400:]
        from analysis import extract
        fdir, th, info = extract.extract("quick", repo=work)
        ok_all = True
        msgs = []
        for pid, exp in sorted(expects.items()):
            env = dict(os.environ)
            env["VERIF_EVIDENCE_DIR"] = os.path.join(tmp, "evidence")
            p = subprocess.run([os.path.join(HERE, "check"), pid, "--facts", fdir], cwd=HERE, env=env,
                               stdout=subprocess.PIPE, stderr=subprocess.STDOUT, text=True)
            out = p.stdout
            fired = p.returncode == 1 and "VIOLATION property=%s" % pid in out
            if exp == "observe":
                ok = True
                msgs.append("%s recorded as MISSED (outside the decided clauses): the check is %s on it" % (
                    pid, "silent" if p.returncode == 0 else "NOW FIRING - update meta.json"))
                if os.environ.get("SELFTEST_SHOW") and p.returncode != 0:
                    msgs.append("\n" + "\n".join(l for l in out.splitlines() if "[C" in l)[:3000])
            elif exp == "silent":
                ok = p.returncode == 0
                msgs.append("%s silent: %s" % (pid, "ok" if ok else "UNEXPECTED ALARM\n" + out[-1500:]))
            else:
                keys = exp if isinstance(exp, list) else [exp]
                ok = fired and all(k in out for k in keys)
                msgs.append("%s fires %s: %s" % (pid, keys, "ok" if ok else "MISSED (exit %d)\n%s" % (p.returncode, out[-1500:])))
            ok_all = ok_all and ok
        return ok_all, "; ".join(msgs)
    finally:
        shutil.rmtree(tmp, ignore_errors=True)


def main():
    ap = argparse.ArgumentParser()
    ap.add_argument("names", nargs="*")
    ap.add_argument("--property", action="append")
    args = ap.parse_args()
    names = args.names
    if not names:
        names = []
        for base in ("seeded", "mutants"):
            bd = os.path.join(HERE, base)
            if os.path.isdir(bd):
                names += sorted(d for d in os.listdir(bd) if os.path.exists(os.path.join(bd, d, "meta.json")))
    bad = 0
    for n in names:
        ok, msg = run_one(n, args.property)
        print("%-28s %s  %s" % (n, "PASS" if ok else "FAIL", msg))
        bad += 0 if ok else 1
    print("selftest: %d/%d as expected" % (len(names) - bad, len(names)))
    return 1 if bad else 0


if __name__ == "__main__":
    sys.exit(main())
