#!/usr/bin/env python3
import sys, os
sys.path.insert(0, os.path.dirname(os.path.abspath(__file__)))
from mkmutant import mk
B = "ciphercore-base/src/"
mk("m-c14-third-share", {"C14": ["C14.L|TypedValue|party0.slot2"]}, [(B + "typed_value.rs",
   "value: Value::from_vector(vec![v[0].clone(), v[1].clone(), garbage[2].clone()]),",
   "value: Value::from_vector(vec![v[0].clone(), v[1].clone(), v[2].clone()]),")],
   "party 0 receives all three shares and can reconstruct alone")
mk("m-c14-slot-swap", {"C14": ["C14.L|ReplicatedShares"]}, [(B + "typed_value_secret_shared/replicated_shares.rs",
   "shares: vec![garbage[0].clone(), vals[1].clone(), vals[2].clone()],",
   "shares: vec![garbage[0].clone(), vals[2].clone(), vals[1].clone()],")],
   "party 1 gets its two shares in swapped slots")
mk("m-c14-share-indep", {"C14": ["C14.S"]}, [(B + "typed_value.rs",
   "            generalized_subtract(self.value.clone(), v0.clone(), self.t.clone())?,\n            v1.clone(),",
   "            generalized_subtract(self.value.clone(), v0.clone(), self.t.clone())?,\n            v0.clone(),")],
   "third share subtracts v0 twice instead of v0 and v1")
mk("m-c15-prf-state", {"C15": ["C15.P"]}, [(B + "random.rs",
   "pub(super) struct Prf {\n    aes: Aes128,\n}", "pub(super) struct Prf {\n    aes: Aes128,\n    calls: u64,\n}"),
   (B + "random.rs", "        Ok(Prf { aes })", "        Ok(Prf { aes, calls: 0 })"),
   (B + "random.rs", "        PrfSession::new(input, INITIAL_BUFFER_SIZE)?.recursively_generate_value(&self.aes, t)",
    "        self.calls += 1;\n        PrfSession::new(input.wrapping_add(self.calls >> 40), INITIAL_BUFFER_SIZE)?\n            .recursively_generate_value(&self.aes, t)")],
   "PRF gains a call counter that (after 2^40 calls) perturbs the stream position")
mk("m-c15-seeded-os", {"C15": ["C15.E"]}, [(B + "random.rs",
   "            Some(bytes) => bytes,\n            None => {\n                let mut bytes = [0u8; SEED_SIZE];\n                get_bytes_from_os(&mut bytes)?;\n                bytes\n            }\n        };\n        let aes = aes::Aes128::new(GenericArray::from_slice(&bytes));\n        Ok(PRNG {",
   "            Some(bytes) => {\n                let mut salt = [0u8; 1];\n                if bytes == [0u8; SEED_SIZE] {\n                    get_bytes_from_os(&mut salt)?;\n                }\n                let mut b = bytes;\n                b[0] ^= salt[0];\n                b\n            }\n            None => {\n                let mut bytes = [0u8; SEED_SIZE];\n                get_bytes_from_os(&mut bytes)?;\n                bytes\n            }\n        };\n        let aes = aes::Aes128::new(GenericArray::from_slice(&bytes));\n        Ok(PRNG {")],
   "an all-zero seed is salted from the OS generator: a seeded PRNG no longer replays")
mk("m-c15-cache-iv", {"C15": ["C15.C|PRF|args"]}, [(B + "evaluators/simple_evaluator.rs",
   "                        let prf = e.get_mut();\n                        prf.output_value(iv, t)?",
   "                        let prf = e.get_mut();\n                        prf.output_value(iv & 0xffff_ffff, t)?")],
   "cached PRF branch truncates the counter")
mk("m-c10-inverse-perm-wide", {"C10": "silent"}, [(B + "evaluators/simple_evaluator.rs",
   "    let input_entries = input.value.to_flattened_array_u128(input.t.clone())?;", "    let input_entries = input.value.to_flattened_array_u128(input.t.clone())?; // wide reader")],
   "benign: comment only", kind="benign")
mk("m-c10-sum-narrow", {"C10": ["C10.W"]}, [(B + "evaluators/simple_evaluator.rs",
   "    let values = input_value.to_flattened_array_u128(inp_t.clone())?;", "    let values: Vec<u128> = input_value\n        .to_flattened_array_u64(inp_t.clone())?\n        .into_iter()\n        .map(|x| x as u128)\n        .collect();")],
   "Sum reads its input through the 64-bit reader")
