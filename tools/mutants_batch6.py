#!/usr/bin/env python3
import sys, os
sys.path.insert(0, os.path.dirname(os.path.abspath(__file__)))
from mkmutant import mk
B = "ciphercore-base/src/"
mk("m-c03-reshare-mask-known", {"C03": ["C03.H|mpc::resharing::reshare"]}, [(B + "mpc/resharing.rs",
   "            vec![input_shares_vec[i].clone(), zero_shares[i].clone()],",
   "            vec![\n                input_shares_vec[i].clone(),\n                zero_shares[(i + PARTIES - 1) % PARTIES].clone(),\n            ],")],
   "party i masks its product share with zero share i-1, which the receiver (party i-1) can compute itself; the three masks still sum to zero")
mk("b-c03-key-helper", {"C03": "silent", "C02": "silent"}, [(B + "mpc/mpc_truncate.rs",
   "        let key_12 = prf_mul_keys.tuple_get(2)?;", "        let key_12 = third_key(&prf_mul_keys)?;"),
   (B + "mpc/mpc_truncate.rs", "#[typetag::serde]\nimpl CustomOperationBody for TruncateMPC2K {",
    "fn third_key(keys: &Node) -> Result<Node> {\n    keys.tuple_get(2)\n}\n\n#[typetag::serde]\nimpl CustomOperationBody for TruncateMPC2K {")],
   "benign: the key is taken through a helper (mask no longer resolvable -> the obligation disappears, nothing fires)", kind="benign")
mk("b-c02-meta-nop-unannotated", {"C02": "silent", "C06": "silent"}, [(B + "optimizer/meta_operation_optimizer.rs",
   "            Operation::A2B => {\n                let mut node = simple_node.clone();",
   "            Operation::NOP if node.get_annotations()?.is_empty() => {\n                meta_deps[0].as_ref().map(|meta_dep| ProxyObjectWithNode {\n                    meta: meta_dep.meta.clone(),\n                    node: simple_node.clone(),\n                })\n            }\n            Operation::A2B => {\n                let mut node = simple_node.clone();")],
   "benign twin of C02r2-1: getters see through a NOP only when it carries no annotation (no transfer is bypassed)", kind="benign")
mk("b-c08-manual-eq-all", {"C08": "silent"}, [(B + "ops/fixed_precision/fixed_precision_config.rs",
   "#[derive(Clone, Debug, Eq, PartialEq, Hash, Serialize, Deserialize, Copy)]", "#[derive(Clone, Debug, Eq, Hash, Serialize, Deserialize, Copy)]"),
   (B + "ops/fixed_precision/fixed_precision_config.rs", "impl Default for FixedPrecisionConfig {",
    "#[allow(clippy::derived_hash_with_manual_eq)]\nimpl PartialEq for FixedPrecisionConfig {\n    fn eq(&self, other: &Self) -> bool {\n        self.fractional_bits == other.fractional_bits && self.debug == other.debug\n    }\n}\n\nimpl Default for FixedPrecisionConfig {")],
   "benign twin of C08r2-2: manual PartialEq that still compares both fields", kind="benign")
mk("b-c08-named-helper", {"C08": "silent"}, [(B + "ops/utils.rs",
   "    let divisor = g.input(t)?;\n    let divisor_bits = pull_out_bits(divisor.a2b()?)?;\n    let cum_or = cumulative_or(divisor_bits, denominator_cap_2k)?;",
   "    g.set_name(&format!(\n        \"__InverseInitialApproximation(cap=2**{denominator_cap_2k})::<{t}>\"\n    ))?;\n    let divisor = g.input(t)?;\n    let divisor_bits = pull_out_bits(divisor.a2b()?)?;\n    let cum_or = cumulative_or(divisor_bits, denominator_cap_2k)?;")],
   "benign half of C08r2-1: the helper graph gets a name, but gluing still drops names, so nothing collides", kind="benign")
mk("b-c09-free-guard-match", {"C09": "silent"}, [(B + "evaluators.rs",
   "                if to_consume_option[dep_id] == 0 && dep_id != output_id {\n                    values[dep_id] = None;\n                }",
   "                let keep = dep_id == output_id;\n                match (to_consume_option[dep_id], keep) {\n                    (0, false) => values[dep_id] = None,\n                    _ => {}\n                }")],
   "benign twin of C09r2-1: the output exemption is spelled as a tuple match", kind="benign")
mk("b-c09-output-extra-ref", {"C09": "silent"}, [(B + "evaluators.rs",
   "        let output_id = output_node.get_id() as usize;\n", "        to_consume_option[output_node.get_id() as usize] += 1;\n"),
   (B + "evaluators.rs", "                if to_consume_option[dep_id] == 0 && dep_id != output_id {", "                if to_consume_option[dep_id] == 0 {")],
   "benign twin of C09-2: the output node gets one extra reference (+= 1), so its counter never reaches zero", kind="benign")
mk("m-c17-mux-bit-swapped", {"C17": ["C17.M|Mux|bit operands"]}, [(B + "ops/multiplexer.rs",
   "            i_choice0\n                .add(i_flag.multiply(i_choice0.add(i_choice1)?)?)?",
   "            i_choice1\n                .clone()\n                .add(i_flag.multiply(i_choice0.add(i_choice1)?)?)?")],
   "bit branch starts from the wrong operand: selector 1 now yields the third operand")
mk("m-c17-mux-not-flag", {"C17": ["C17.M|Mux|arithmetic operands"]}, [(B + "ops/multiplexer.rs",
   "            let i_choice0 = i_choice0.mixed_multiply(i_flag.add(g.ones(scalar_type(BIT))?)?)?;",
   "            let i_choice0 = i_choice0.mixed_multiply(i_flag.add(g.zeros(scalar_type(BIT))?)?)?;")],
   "the negated selector is computed with zeros instead of ones: output = arg1 + arg2 where the selector is 1")
mk("b-c17-mux-rewrite", {"C17": "silent"}, [(B + "ops/multiplexer.rs",
   "            let i_choice1 = i_choice1.mixed_multiply(i_flag.clone())?;\n            let i_choice0 = i_choice0.mixed_multiply(i_flag.add(g.ones(scalar_type(BIT))?)?)?;\n            i_choice0.add(i_choice1)?.set_as_output()?;",
   "            let diff = i_choice1.subtract(i_choice0.clone())?;\n            i_choice0\n                .add(diff.mixed_multiply(i_flag)?)?\n                .set_as_output()?;")],
   "benign: arithmetic branch rewritten as arg2 + selector*(arg1 - arg2) (one product instead of two)", kind="benign")
mk("m-c02-truncate-key", {"C02": ["C02.W|"]}, [(B + "mpc/mpc_truncate.rs",
   "        let prf_key_parties_12 = prf_keys.tuple_get(PARTIES as u64 - 1)?;", "        let prf_key_parties_12 = prf_keys.tuple_get(PARTIES as u64 - 2)?;")],
   "TruncateMPC draws r under key 1 (held by parties 1 and 0): party 2 cannot compute the third result share r")
mk("m-c02-truncate-sender", {"C02": ["C02.W|"]}, [(B + "mpc/mpc_truncate.rs",
   "        res1_sent.add_annotation(NodeAnnotation::Send(1, 0))?;", "        res1_sent.add_annotation(NodeAnnotation::Send(2, 0))?;")],
   "TruncateMPC: the re-masked share is sent by party 2, which does not hold input share 1")
mk("b-c12-checktype-zip", {"C12": "silent", "C09": "silent"}, [(B + "data_values.rs",
   "                        if ts.len() != children.len() {\n                            return Ok(false);\n                        }\n                        for i in 0..ts.len() {\n                            if !children[i].check_type((*ts[i]).clone())? {\n                                return Ok(false);\n                            }\n                        }\n                        Ok(true)",
   "                        let same_len = ts.len() == children.len();\n                        if !same_len {\n                            return Ok(false);\n                        }\n                        for (child, child_type) in children.iter().zip(ts.iter()) {\n                            if !child.check_type((**child_type).clone())? {\n                                return Ok(false);\n                            }\n                        }\n                        Ok(true)")],
   "benign twin of C12r2-2: zip-based loop that keeps the length equality (let-bound)", kind="benign")
mk("m-c12-checktype-bytes-le", {"C12": ["C12.T|check_type|Ok(cmp)"]}, [(B + "data_values.rs",
   "                ValueBody::Bytes(bytes) => Ok(bytes.len() as u64 == (s + 7) / 8),",
   "                ValueBody::Bytes(bytes) => Ok(bytes.len() as u64 >= (s + 7) / 8),")],
   "byte arrays longer than the type's size are accepted")
mk("m-c02-t2k-closure-sender", {"C02": ["C02.W|", "{closure#0}"]}, [(B + "mpc/mpc_truncate.rs",
   "            share1_sent.add_annotation(NodeAnnotation::Send(2, 1))?;", "            share1_sent.add_annotation(NodeAnnotation::Send(0, 1))?;")],
   "TruncateMPC2K: val - PRF(k_02) is sent by party 0, which does not know r (drawn under k_2, held by party 2 only)")
mk("m-c02-t2k-z0", {"C02": ["C02.W|"]}, [(B + "mpc/mpc_truncate.rs",
   "        let z0 = x0.add(x1)?;\n        let z1 = x2;", "        let z0 = x0.add(x2.clone())?;\n        let z1 = x1;")],
   "TruncateMPC2K: party 0's 2-out-of-2 share is built from x0 + x2, but party 0 does not hold x2 (still sums to x)")
mk("m-c02-ot-rb-sender", {"C02": ["C02.W|ObliviousTransfer|roles|sender"]}, [(B + "mpc/utils.rs",
   "            .add_annotation(NodeAnnotation::Send(helper_id, self.receiver_id))?;", "            .add_annotation(NodeAnnotation::Send(self.sender_id, self.receiver_id))?;")],
   "OT: r_b is sent by the sender, which does not know the selection bit b")
mk("m-c02-ot-helper-id", {"C02": ["C02.W|ObliviousTransfer|roles|sender"]}, [(B + "mpc/utils.rs",
   "        let helper_id = PARTIES as u64 - self.sender_id - self.receiver_id;", "        let helper_id = (self.receiver_id + 1) % PARTIES as u64;")],
   "OT: the helper is taken to be receiver+1, which is the sender for (sender, receiver) = (1,0), (2,1), (0,2)")
mk("m-c02-mixed-key", {"C02": ["C02.W|multiply_bits_by_public_integers|roles|"]}, [(B + "mpc/mpc_arithmetic.rs",
   "    let key_sh = prf_keys.tuple_get(party_h_id)?;", "    let key_sh = prf_keys.tuple_get(party_r_id)?;")],
   "bit-by-public-integer product: the second mask is drawn under key R (held by R and H), which the integer owner S does not hold")
mk("m-c02-mixed-forward", {"C02": ["C02.W|multiply_bits_by_public_integers|roles|sender"]}, [(B + "mpc/mpc_arithmetic.rs",
   "        .add_annotation(NodeAnnotation::Send(party_r_id, party_h_id))?;", "        .add_annotation(NodeAnnotation::Send(party_h_id, party_r_id))?;")],
   "the OT result is 'sent' by the helper, which never received it")
mk("m-c03-ot-rb-to-sender", {"C03": ["C03.H|ObliviousTransfer|roles|send"]}, [(B + "mpc/utils.rs",
   "            .add_annotation(NodeAnnotation::Send(helper_id, self.receiver_id))?;", "            .add_annotation(NodeAnnotation::Send(helper_id, self.sender_id))?;")],
   "OT: the helper's selected mask r_b goes to the sender, who holds the PRF key and so learns the selection bit b")
