#!/usr/bin/env python3
import sys, os
sys.path.insert(0, os.path.dirname(os.path.abspath(__file__)))
from mkmutant import mk
B = "ciphercore-base/src/"
mk("m-c03-reshare-mask-known", {"C03": ["C03.H|mpc::resharing::reshare"]}, [(B + "mpc/resharing.rs",
   "            vec![input_shares_vec[i].clone(), zero_shares[i].clone()],",
   "            vec![\n                input_shares_vec[i].clone(),\n                zero_shares[(i + PARTIES - 1) % PARTIES].clone(),\n            ],")],
   "party i masks its product share with zero share i-1, which the receiver (party i-1) can compute itself; the three masks still sum to zero")
mk("b-c03-key-helper", {"C03": "silent", "C02": "silent"}, [(B + "mpc/mpc_truncate.rs",
   "        let key_12 = prf_mul_keys.tuple_get(2)?;", "        let key_12 = third_key(&prf_mul_keys)?;"),
   (B + "mpc/mpc_truncate.rs", "#[typetag::serde]\nimpl CustomOperationBody for TruncateMPC2K {",
    "fn third_key(keys: &Node) -> Result<Node> {\n    keys.tuple_get(2)\n}\n\n#[typetag::serde]\nimpl CustomOperationBody for TruncateMPC2K {")],
   "benign: the key is taken through a helper (mask no longer resolvable -> the obligation disappears, nothing fires)", kind="benign")
