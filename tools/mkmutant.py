#!/usr/bin/env python3
"""Create /verif/mutants/<name>/{patch.diff,meta.json} from textual replacements against /repo's current tree.
usage (python): mk(name, kind, expect, [(file, old, new), ...], note)"""
import json, os, subprocess, sys, tempfile, shutil
HERE = os.path.dirname(os.path.dirname(os.path.abspath(__file__)))


def mk(name, expect, edits, note, kind="mutant"):
    out = os.path.join(HERE, "mutants", name)
    os.makedirs(out, exist_ok=True)
    tmp = tempfile.mkdtemp(prefix="ccverif-mk-")
    try:
        diffs = []
        byfile = {}
        for f, old, new in edits:
            byfile.setdefault(f, []).append((old, new))
        for f, reps in byfile.items():
            src = open(os.path.join("/repo", f)).read()
            dst = src
            for old, new in reps:
                if dst.count(old) != 1:
                    raise SystemExit("%s: pattern occurs %d times in %s: %r" % (name, dst.count(old), f, old[:60]))
                dst = dst.replace(old, new)
            a = os.path.join(tmp, "a", f)
            b = os.path.join(tmp, "b", f)
            os.makedirs(os.path.dirname(a), exist_ok=True)
            os.makedirs(os.path.dirname(b), exist_ok=True)
            open(a, "w").write(src)
            open(b, "w").write(dst)
            r = subprocess.run(["diff", "-u", "a/" + f, "b/" + f], cwd=tmp, stdout=subprocess.PIPE, text=True)
            diffs.append("diff --git a/%s b/%s\n" % (f, f) + r.stdout)
        open(os.path.join(out, "patch.diff"), "w").write("".join(diffs))
        json.dump({"kind": kind, "expect": expect, "note": note}, open(os.path.join(out, "meta.json"), "w"), indent=1)
    finally:
        shutil.rmtree(tmp, ignore_errors=True)
    print("made", name)
