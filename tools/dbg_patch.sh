#!/bin/bash
# usage: tools/dbg_patch.sh <patch.diff> <Cxx> [Cyy ...]   (prints the last lines of each check on the patched scratch copy; keeps facts path in /tmp/fdir.txt)
P=$1; shift
T=$(mktemp -d /tmp/ccv-XXXX); rsync -a --exclude target --exclude .git /repo/ $T/repo/
(cd $T/repo && git apply --unsafe-paths $P) || { echo "patch failed"; exit 1; }
python3 - <<EOF
import sys; sys.path.insert(0,'/verif')
from analysis import extract
fdir,th,info=extract.extract('quick',repo='$T/repo'); open('/tmp/fdir.txt','w').write(fdir)
EOF
for p in "$@"; do VERIF_EVIDENCE_DIR=$T/ev /verif/check $p --facts $(cat /tmp/fdir.txt) 2>&1 | grep -v KNOWN | tail -${TAILN:-6}; done
rm -rf $T
