#!/usr/bin/env python3
import sys, os
sys.path.insert(0, os.path.dirname(os.path.abspath(__file__)))
from mkmutant import mk
B = "ciphercore-base/src/"
mk("m-c03-zero-mask", {"C03": ["C03.M|mpc::resharing::reshare"]}, [(B + "mpc/resharing.rs",
   "            vec![input_shares_vec[i].clone(), zero_shares[i].clone()],",
   "            vec![\n                input_shares_vec[i].clone(),\n                g.zeros(zero_shares[i].get_type()?)?,\n            ],")],
   "the zero-sharing mask of reshare is replaced by zeros (the property's own example)")
mk("m-c03-reveal-all", {"C03": ["C03.R"]}, [(B + "mpc/mpc_compiler.rs",
   "                if output_parties.contains(&IOStatus::Party(party_to_send_id as u64)) {\n                    send_node = send_node.nop()?;",
   "                if !output_parties.is_empty() {\n                    send_node = send_node.nop()?;")],
   "the revealed value is forwarded to every party, listed or not")
mk("m-c07-unassign-skip", {"C07": ["C07.B|inline::simple_iterate_inliner::inline_iterate_simple"]}, [(B + "inline/simple_iterate_inliner.rs",
   "        let result = inliner.recursively_inline_graph(graph.clone())?;\n        inliner.unassign_nodes(graph.clone())?;",
   "        let result = inliner.recursively_inline_graph(graph.clone())?;")],
   "bindings of the iteration body are never released")
mk("m-c07-memo", {"C07": ["C07.F"]}, [(B + "inline/inline_ops.rs",
   "        if inlining_context\n            .ephemeral_context_mapping\n            .contains_node(&node)\n        {\n            if !node.get_operation().is_input() {\n                panic!(\"Logic error: non-input node is already processed\");\n            }\n            continue;\n        }\n",
   "        if inlining_context\n            .ephemeral_context_mapping\n            .contains_node(&node)\n        {\n            if !node.get_operation().is_input() {\n                panic!(\"Logic error: non-input node is already processed\");\n            }\n            continue;\n        }\n        if caller_node.is_some() && inlining_context.context_mapping.contains_node(&node) {\n            continue;\n        }\n")],
   "memoisation: a body node already inlined once is skipped the second time")
mk("m-c03-ot-unmask", {"C03": ["C03.M|<mpc::utils::ObliviousTransfer"]}, [(B + "mpc/utils.rs",
   "        let masked_i1 = i1\n            .add(r1.clone())?\n            .nop()?", "        let masked_i1 = i1\n            .nop()?")],
   "OT message 1 is sent unmasked")
