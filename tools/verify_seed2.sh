#!/bin/bash
# like verify_seed.sh but runs only what the baseline runs (unit/integration tests, no doc tests) - faster on a loaded machine
set -u
VERIF=$(cd "$(dirname "$0")/.." && pwd)
export CARGO_NET_OFFLINE=true CARGO_BUILD_JOBS=${CARGO_BUILD_JOBS:-8} CARGO_TARGET_DIR=${VS_TARGET:-/tmp/vs/target2}
mkdir -p /tmp/vs
for name in "$@"; do
  S=$VERIF/seeded/$name
  [ -f $S/verify.log ] && grep -q demo_without_patch $S/verify.log && { echo "$name: already verified"; continue; }
  base=$(python3 -c "import json;print(json.load(open('$S/meta.json')).get('base','HEAD'))")
  WT=/tmp/vs/wt2-$name
  git -C /repo worktree remove --force $WT >/dev/null 2>&1
  git -C /repo worktree add -q --detach $WT $base || { echo "$name: cannot create worktree"; continue; }
  LOG=$S/verify.log; : > $LOG
  demos=$(ls $S/*.rs 2>/dev/null)
  ( cd $WT
    git apply $S/patch.diff || { echo "patch does not apply" >> $LOG; exit; }
    timeout 6000 cargo test --workspace --no-fail-fast --offline --lib --bins --tests > /tmp/vs/suite2-$name.log 2>&1
    echo "suite_with_patch_exit=$? $(grep -E '^test result' /tmp/vs/suite2-$name.log | awk '{p+=$4; f+=$6} END {print "passed="p" failed="f}')" >> $LOG
    mkdir -p ciphercore-base/tests
    for d in $demos; do cp $d ciphercore-base/tests/; done
    for d in $demos; do t=$(basename $d .rs)
      timeout 3000 cargo test --offline -p ciphercore-base --test $t > /tmp/vs/demo2-with-$name-$t.log 2>&1
      echo "demo_with_patch[$t]_exit=$? $(grep -E '^test result' /tmp/vs/demo2-with-$name-$t.log | head -1)" >> $LOG
    done
    if [ -f $S/demo.diff ]; then
      filt=$(python3 -c "import json;print(json.load(open('$S/meta.json')).get('demo_filter',''))")
      git apply $S/demo.diff || echo "demo.diff does not apply" >> $LOG
      timeout 6000 cargo test --offline -p ciphercore-base --lib -- $filt > /tmp/vs/demo2-with-$name-diff.log 2>&1
      echo "demo_with_patch[demo.diff:$filt]_exit=$? $(grep -E '^test result' /tmp/vs/demo2-with-$name-diff.log | head -1)" >> $LOG
      git apply -R $S/demo.diff
    fi
    git apply -R $S/patch.diff
    if [ -f $S/demo.diff ]; then
      git apply $S/demo.diff
      timeout 6000 cargo test --offline -p ciphercore-base --lib -- $filt > /tmp/vs/demo2-without-$name-diff.log 2>&1
      echo "demo_without_patch[demo.diff:$filt]_exit=$? $(grep -E '^test result' /tmp/vs/demo2-without-$name-diff.log | head -1)" >> $LOG
      git apply -R $S/demo.diff
    fi
    for d in $demos; do t=$(basename $d .rs)
      timeout 3000 cargo test --offline -p ciphercore-base --test $t > /tmp/vs/demo2-without-$name-$t.log 2>&1
      echo "demo_without_patch[$t]_exit=$? $(grep -E '^test result' /tmp/vs/demo2-without-$name-$t.log | head -1)" >> $LOG
    done
  )
  git -C /repo worktree remove --force $WT >/dev/null 2>&1
  echo "== $name"; cat $LOG
done
