#!/usr/bin/env python3
import sys, os
sys.path.insert(0, os.path.dirname(os.path.abspath(__file__)))
from mkmutant import mk
B = "ciphercore-base/src/"
mk("m-c04-dedup-rand", {"C04": ["C04.D"]}, [(B + "optimizer/duplicates_optimizer.rs",
   "if op.is_prf_operation() || op.is_randomizing()? || op.is_input() {", "if op.is_prf_operation() || op.is_input() {")],
   "de-duplication no longer skips randomizing operations: two Random nodes of the same type are merged")
mk("m-c04-uniq-reset", {"C04": ["C04.U|counter|single-init"]}, [(B + "mpc/mpc_compiler.rs",
   "    let mut prf_id = 0;\n    for graph in graphs {\n        let out_graph = new_context.create_graph()?;",
   "    for graph in graphs {\n        let mut prf_id = 0;\n        let out_graph = new_context.create_graph()?;")],
   "PRF counter restarted for every graph: equal counters across graphs of one context")
mk("m-c04-order", {"C04": ["C04.P"]}, [(B + "mpc/mpc_compiler.rs",
   "    let inlined_context = inline_operations(&instantiated_context.get_context(), inline_config)?;\n    let uniquified_prf_context = uniquify_prf_id(inlined_context.get_context())?;\n    let new_context = uniquified_prf_context.context.clone();\n",
   "    let uniquified_prf_context = uniquify_prf_id(instantiated_context.get_context())?;\n    let inlined_context = inline_operations(&uniquified_prf_context.get_context(), inline_config)?;\n    let new_context = inlined_context.context.clone();\n"),
   (B + "mpc/mpc_compiler.rs",
   "        instantiated_context.mappings,\n        inlined_context.mappings,\n        uniquified_prf_context.mappings,\n    ]);\n\n    Ok(MappedContext::new_with_mappings(\n        context.clone(),\n        new_context,",
   "        instantiated_context.mappings,\n        uniquified_prf_context.mappings,\n        inlined_context.mappings,\n    ]);\n\n    Ok(MappedContext::new_with_mappings(\n        context.clone(),\n        new_context,")],
   "renumbering before inlining: bodies inlined k times share their counters")
mk("m-c04-rand-table", {"C04": ["C04.R|CuckooToPermutation"]}, [(B + "graphs.rs",
   "            | Operation::CuckooToPermutation\n            | Operation::DecomposeSwitchingMap(_) => Ok(true),",
   "            | Operation::DecomposeSwitchingMap(_) => Ok(true),\n            Operation::CuckooToPermutation => Ok(false),")],
   "a randomizing operation removed from is_randomizing: it can now be folded and merged")
mk("m-c06-ann-drop", {"C06": ["C06.A|dangling|annotations"]}, [(B + "optimizer/dangling_nodes_optimizer.rs",
   "        for annotation in node.get_annotations()? {\n            new_node.add_annotation(annotation)?;\n        }\n", "")],
   "dangling pass forgets to copy annotations")
mk("m-c06-type-dep", {"C06": ["C06.T|dangling"]}, [(B + "optimizer/dangling_nodes_optimizer.rs",
   "out_graph.add_node_with_type(deps, vec![], node.get_operation(), node.get_type()?)?;",
   "out_graph.add_node_with_type(deps, vec![], node.get_operation(), graph.get_output_node()?.get_type()?)?;")],
   "recorded type taken from another node")
mk("m-c06-chain-order", {"C06": ["C06.O|chain|mapping-order"]}, [(B + "optimizer/optimize.rs",
   "            node_mapping1,\n            node_mapping2,\n", "            node_mapping2,\n            node_mapping1,\n")],
   "mapping chain composed in the wrong order")
mk("m-c06-b2a-guard", {"C06": ["C06.B"]}, [(B + "optimizer/meta_operation_optimizer.rs",
   "                        if st == arithmetic_node.get_type()?.get_scalar_type() {\n                            node = arithmetic_node.clone();\n                        }\n",
   "                        let _ = st;\n                        node = arithmetic_node.clone();\n")],
   "B2A(A2B(x)) cancelled without comparing scalar types")
mk("m-c06-rev", {"C06": ["C06.I|constants|order"]}, [(B + "optimizer/constant_optimizer.rs",
   "    for node in graph.get_nodes() {\n        if !node.get_graph_dependencies().is_empty() {",
   "    for node in graph.get_nodes().into_iter().rev().collect::<Vec<_>>().into_iter().rev().skip(0) {\n        if !node.get_graph_dependencies().is_empty() {")],
   "node loop iterates through a reordering adaptor chain")
mk("b-c06-dangling-match", {"C06": "silent", "C04": "silent"}, [(B + "optimizer/dangling_nodes_optimizer.rs",
   "        if !node.get_operation().is_input() && !useful_nodes.contains(&node) {\n            continue;\n        }\n",
   "        match (node.get_operation().is_input(), useful_nodes.contains(&node)) {\n            (false, false) => continue,\n            _ => {}\n        }\n")],
   "benign: skip condition re-spelled as a match on a tuple", kind="benign")
mk("m-c02-send-on-sum", {"C02": ["C02.S|mpc::resharing::reshare"]}, [(B + "mpc/resharing.rs",
   "        let sent_share = g.nop(masked_share)?;\n", "        let sent_share = masked_share;\n")],
   "Send annotation placed on the sum node instead of a NOP")
mk("m-c02-drop-send", {"C02": ["C02.N|mpc::mpc_compiler::share_node", "C02.Z|mpc::mpc_compiler::share_node"]}, [(B + "mpc/mpc_compiler.rs",
   "        let im1 = ((i + PARTIES - 1) % PARTIES) as u64;\n        network_node.add_annotation(NodeAnnotation::Send(i as u64, im1))?;\n        outputs.push(network_node);",
   "        outputs.push(network_node);")],
   "input shares are no longer sent to the neighbour party")
mk("m-c02-planner-a2b", {"C02": ["C02.K|reshare-before|A2B"]}, [(B + "mpc/resharing.rs",
   "                | Operation::A2B\n                | Operation::B2A(_)\n                | Operation::Sort(_)",
   "                | Operation::B2A(_)\n                | Operation::Sort(_)"),
   (B + "mpc/resharing.rs", "                | Operation::CreateVector(_) => {\n                    self.local_operation_handler(node)?;",
    "                | Operation::A2B\n                | Operation::CreateVector(_) => {\n                    self.local_operation_handler(node)?;")],
   "planner treats A2B as a local operation: its input may still be a 3-out-of-3 product")
mk("m-c02-map-unreshared", {"C02": ["C02.K|mapping"]}, [(B + "mpc/mpc_compiler.rs",
   "                reshare(&new_node, &keys_mul)?\n            } else {", "                let _ = reshare(&new_node, &keys_mul)?;\n                new_node\n            } else {")],
   "reshared node built but the un-reshared one is mapped")
mk("b-c02-send-helper", {"C02": "silent"}, [(B + "mpc/resharing.rs",
   "        let sent_share = g.nop(masked_share)?;\n        let im1 = ((i + PARTIES - 1) % PARTIES) as u64;\n        sent_share.add_annotation(NodeAnnotation::Send(i as u64, im1))?;\n        output_shares_vec.push(sent_share);",
   "        let im1 = ((i + PARTIES - 1) % PARTIES) as u64;\n        output_shares_vec.push(send_to(&g, masked_share, i as u64, im1)?);"),
   (B + "mpc/resharing.rs", "// Convert 3-out-of-3 to 2-out-of-3 shares\n",
    "fn send_to(g: &Graph, node: Node, from: u64, to: u64) -> Result<Node> {\n    let sent = g.nop(node)?;\n    sent.add_annotation(NodeAnnotation::Send(from, to))?;\n    Ok(sent)\n}\n\n// Convert 3-out-of-3 to 2-out-of-3 shares\n")],
   "benign: nop+Send extracted into a helper", kind="benign")
mk("m-c11-guard", {"C11": ["C11.G|graphs::Context::add_graph_annotation"]}, [(B + "graphs.rs",
   "        if self.is_finalized() {\n            return Err(runtime_error!(\n                \"Can't set a graph annotation in a finalized context\"\n            ));\n        }\n", "")],
   "finalized guard of add_graph_annotation removed")
mk("m-c11-unreg-type", {"C11": ["C11.R|remove_last_node|TypeInferenceWorker::unregister_node"]}, [(B + "graphs.rs",
   "        if let Some(tc) = &mut context_body.type_checker {\n            tc.unregister_node(n)?;\n        }\n        let mut cell = self.body.borrow_mut();\n        cell.nodes.pop();",
   "        let _ = &mut context_body;\n        let mut cell = self.body.borrow_mut();\n        cell.nodes.pop();")],
   "rollback leaves the stale cached type of the removed node")
mk("b-c11-guard-match", {"C11": "silent"}, [(B + "graphs.rs",
   "        if self.is_finalized() {\n            return Err(runtime_error!(\n                \"Can't set a node name in a finalized context\"\n            ));\n        }\n",
   "        match self.is_finalized() {\n            true => {\n                return Err(runtime_error!(\n                    \"Can't set a node name in a finalized context\"\n                ))\n            }\n            false => {}\n        }\n")],
   "benign: guard re-spelled as a match", kind="benign")
mk("m-c12-gt", {"C12": ["C12.I"]}, [(B + "graphs.rs",
   "            if *id >= current_graphs.len() as u64 {\n                return Err(runtime_error!(\"graphs_names contain an invalid ID\"));",
   "            if *id > current_graphs.len() as u64 {\n                return Err(runtime_error!(\"graphs_names contain an invalid ID\"));")],
   "off-by-one in the validation of graphs_names ids")
mk("m-c12-eq-field", {"C12": ["C12.F|equality|ContextBody.graphs_annotations"]}, [(B + "graphs.rs",
   "    if body1.graphs_annotations != body2.graphs_annotations {\n        return false;\n    }\n", "")],
   "deep equality ignores graph annotations")
mk("m-c12-unwrap", {"C12": ["C12.P"]}, [(B + "data_values.rs",
   "            Value::from_serializable_value(serializable_value).map_err(serde::de::Error::custom)",
   "            Ok(Value::from_serializable_value(serializable_value).unwrap())")],
   "decoder unwraps a conversion result")
