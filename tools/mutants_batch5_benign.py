#!/usr/bin/env python3
"""benign re-spellings: every listed check must stay silent"""
import sys, os
sys.path.insert(0, os.path.dirname(os.path.abspath(__file__)))
from mkmutant import mk
B = "ciphercore-base/src/"
mk("b-c04-uniquify-match", {"C04": "silent", "C06": "silent"}, [(B + "mpc/mpc_compiler.rs",
   "            let op = if op.is_prf_operation() {\n                prf_id += 1;\n                op.update_prf_id(prf_id)?\n            } else {\n                op\n            };",
   "            let op = match op.is_prf_operation() {\n                true => {\n                    prf_id += 1;\n                    op.update_prf_id(prf_id)?\n                }\n                false => op,\n            };")],
   "benign: PRF test of uniquify_prf_id as a match", kind="benign")
mk("b-c04-dedup-order", {"C04": "silent", "C06": "silent"}, [(B + "optimizer/duplicates_optimizer.rs",
   "if op.is_prf_operation() || op.is_randomizing()? || op.is_input() {", "if op.is_input() || op.is_randomizing()? || op.is_prf_operation() {")],
   "benign: guard operands reordered", kind="benign")
mk("b-c06-ann-if", {"C06": "silent", "C04": "silent"}, [(B + "optimizer/dangling_nodes_optimizer.rs",
   "        for annotation in node.get_annotations()? {\n            new_node.add_annotation(annotation)?;\n        }\n",
   "        let annotations = node.get_annotations()?;\n        if !annotations.is_empty() {\n            for annotation in annotations {\n                new_node.add_annotation(annotation)?;\n            }\n        }\n")],
   "benign: annotation copy guarded by is_empty (as inline_ops does)", kind="benign")
mk("b-c06-type-let", {"C06": "silent"}, [(B + "optimizer/dangling_nodes_optimizer.rs",
   "        let new_node =\n            out_graph.add_node_with_type(deps, vec![], node.get_operation(), node.get_type()?)?;",
   "        let node_type = node.get_type()?;\n        let operation = node.get_operation();\n        let new_node = out_graph.add_node_with_type(deps, vec![], operation, node_type)?;")],
   "benign: operands of add_node_with_type bound to locals first", kind="benign")
mk("b-c11-guard-let", {"C11": "silent"}, [(B + "graphs.rs",
   "        if self.is_finalized() {\n            return Err(runtime_error!(\n                \"Can't add a node annotation in a finalized context\"\n            ));\n        }\n",
   "        let finalized = self.is_finalized();\n        if finalized {\n            return Err(runtime_error!(\n                \"Can't add a node annotation in a finalized context\"\n            ));\n        }\n")],
   "benign: finalized flag bound to a local", kind="benign")
mk("b-c11-set-output-issome", {"C11": "silent"}, [(B + "graphs.rs",
   "        let current_output_node = self.body.borrow().output_node.clone();\n        match current_output_node {\n            Some(_) => Err(runtime_error!(\"Output node is already set\")),\n            None => {\n                if output_node.get_graph() != *self {\n                    Err(runtime_error!(\"Output node has to be from the same graph\"))\n                } else {\n                    self.body.borrow_mut().output_node = Some(output_node.downgrade());\n                    Ok(())\n                }\n            }\n        }",
   "        let current_output_node = self.body.borrow().output_node.clone();\n        if current_output_node.is_some() {\n            return Err(runtime_error!(\"Output node is already set\"));\n        }\n        if output_node.get_graph() != *self {\n            return Err(runtime_error!(\"Output node has to be from the same graph\"));\n        }\n        self.body.borrow_mut().output_node = Some(output_node.downgrade());\n        Ok(())")],
   "benign: set_output_node with is_some() and early returns", kind="benign")
mk("b-c12-guard-lt", {"C12": "silent"}, [(B + "graphs.rs",
   "            if *id >= current_graphs.len() as u64 {\n                return Err(runtime_error!(\"graphs_names contain an invalid ID\"));",
   "            if !(*id < current_graphs.len() as u64) {\n                return Err(runtime_error!(\"graphs_names contain an invalid ID\"));")],
   "benign: bounds guard spelled as !(id < len)", kind="benign")
mk("b-c15-session-let", {"C15": "silent"}, [(B + "random.rs",
   "        PrfSession::new(input, INITIAL_BUFFER_SIZE)?.recursively_generate_value(&self.aes, t)",
   "        let mut session = PrfSession::new(input, INITIAL_BUFFER_SIZE)?;\n        session.recursively_generate_value(&self.aes, t)")],
   "benign: PrfSession bound to a local", kind="benign")
mk("b-c14-clone-locals", {"C14": "silent"}, [(B + "typed_value.rs",
   "                value: Value::from_vector(vec![v[0].clone(), v[1].clone(), garbage[2].clone()]),",
   "                value: {\n                    let s0 = v[0].clone();\n                    let s1 = v[1].clone();\n                    let junk = garbage[2].clone();\n                    Value::from_vector(vec![s0, s1, junk])\n                },")],
   "benign: slots bound to locals before the vec! literal", kind="benign")
mk("b-c03-reveal-let", {"C03": "silent", "C02": "silent"}, [(B + "mpc/mpc_compiler.rs",
   "                if output_parties.contains(&IOStatus::Party(party_to_send_id as u64)) {\n                    send_node = send_node.nop()?;",
   "                let is_recipient = output_parties.contains(&IOStatus::Party(party_to_send_id as u64));\n                if is_recipient {\n                    send_node = send_node.nop()?;")],
   "benign: membership test bound to a local", kind="benign")
mk("b-c08-name-helper", {"C08": "silent"}, [(B + "mpc/low_mc.rs",
   "        format!(\n            \"LowMC({}-{}-{:?})\",\n            self.s_boxes_per_round, self.rounds, self.block_size\n        )",
   "        low_mc_name(self.s_boxes_per_round, self.rounds, &self.block_size)"),
   (B + "mpc/low_mc.rs", "#[typetag::serde]\nimpl CustomOperationBody for LowMC {",
    "fn low_mc_name(s_boxes: u64, rounds: u64, block_size: &LowMCBlockSize) -> String {\n    format!(\"LowMC({s_boxes}-{rounds}-{block_size:?})\")\n}\n\n#[typetag::serde]\nimpl CustomOperationBody for LowMC {")],
   "benign: name formatted by a helper that receives all fields", kind="benign")
mk("b-c07-bind-block", {"C07": "silent"}, [(B + "inline/simple_iterate_inliner.rs",
   "        inliner.assign_input_nodes(graph.clone(), vec![state.clone(), current_input.clone()])?;\n        let result = inliner.recursively_inline_graph(graph.clone())?;\n        inliner.unassign_nodes(graph.clone())?;",
   "        let result = {\n            inliner.assign_input_nodes(graph.clone(), vec![state.clone(), current_input.clone()])?;\n            let inlined = inliner.recursively_inline_graph(graph.clone());\n            inliner.unassign_nodes(graph.clone())?;\n            inlined?\n        };")],
   "benign (and more careful): bindings are released even when inlining fails", kind="benign")
mk("b-c10-reader-alias", {"C10": "silent"}, [(B + "evaluators/simple_evaluator.rs",
   "                let values = dependencies_values[0].to_flattened_array_u128(t.clone())?;\n                let shape = t.get_shape();\n                let row_len: u64 = shape.iter().skip(1).product();",
   "                let dep_value = &dependencies_values[0];\n                let values = dep_value.to_flattened_array_u128(t.clone())?;\n                let shape = t.get_shape();\n                let row_len: u64 = shape.iter().skip(1).product();")],
   "benign: dependency value bound to a reference first", kind="benign")
mk("b-c09-shape-let", {"C09": "silent"}, [(B + "type_inference.rs",
   "                let input_shape = input_t.get_shape();\n                if Type::Array(vec![input_shape[0]], BIT) != binary_t {",
   "                let checked_t = input_t.clone();\n                let input_shape = checked_t.get_shape();\n                if Type::Array(vec![input_shape[0]], BIT) != binary_t {")],
   "benign: accessor applied to a clone of the guarded value", kind="benign")
