#!/usr/bin/env python3
"""Import behaviour-preserving refactorings produced by sub-agents (/tmp/benign/<ID>/OUT/<k>/{patch.diff,README.md}) as
mutants/ba-<ID>-<k> with the expectation `silent` for the property they were written for and its rule-sharing neighbours."""
import json, os, shutil, sys, glob
HERE = os.path.dirname(os.path.dirname(os.path.abspath(__file__)))
RELATED = {"C02": ["C02", "C03", "C19"], "C03": ["C03", "C02"], "C04": ["C04", "C06"], "C06": ["C06", "C04", "C02"], "C07": ["C07"],
           "C08": ["C08"], "C09": ["C09", "C12"], "C10": ["C10"], "C11": ["C11", "C12"], "C12": ["C12", "C11"], "C14": ["C14"],
           "C15": ["C15"], "C17": ["C17"], "C19": ["C19", "C02"]}
for d in sorted(glob.glob("/tmp/benign/C*/OUT/*/patch.diff")) + sorted(glob.glob("/tmp/benign3/C*/OUT/*/patch.diff")) + sorted(glob.glob("/tmp/benign4/C*/OUT/*/patch.diff")):
    parts = d.split("/")
    pid, k = parts[3], parts[5]
    name = {"benign3": "ba3-%s-%s", "benign4": "ba4-%s-%s"}.get(parts[2], "ba-%s-%s") % (pid, k)
    out = os.path.join(HERE, "mutants", name)
    os.makedirs(out, exist_ok=True)
    shutil.copy(d, os.path.join(out, "patch.diff"))
    readme = os.path.join(os.path.dirname(d), "README.md")
    note = ""
    if os.path.exists(readme):
        shutil.copy(readme, os.path.join(out, "README.md"))
        note = " ".join(open(readme).read().split())[:300]
    json.dump({"kind": "benign (behaviour-preserving refactoring by an independent sub-agent; all claimed checks were run on it)",
               "expect": {p: "silent" for p in RELATED.get(pid, [pid])}, "note": note, "base": "c8b9115"},
              open(os.path.join(out, "meta.json"), "w"), indent=1)
    print("imported", name)
