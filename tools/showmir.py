#!/usr/bin/env python3
"""debug helper: print the MIR facts of one body.  tools/showmir.py <body id substring> [facts dir]"""
import sys, os, json
sys.path.insert(0, os.path.dirname(os.path.dirname(os.path.abspath(__file__))))
from analysis import facts as F
from analysis.facts import callee_name
root = '/verif/.cache/facts'
from analysis import extract
d = sys.argv[2] if len(sys.argv) > 2 else extract.extract('quick')[0]
f = F.load_facts(d)
pat = sys.argv[1]
def P(pl):
    s = "_%d" % pl[0]
    for p in pl[1:]:
        s += "." + (p if p != "*" else "*")
    return s
def O(op):
    if op[0] == 'k': return "const(%s)" % op[2][:50]
    return ("move " if op[0]=='m' else "") + P(op[1])
def RV(rv):
    k = rv[0]
    if k == 'use': return O(rv[1])
    if k in ('ref','raw'): return "&%s %s" % (rv[1], P(rv[2]))
    if k == 'bin': return "%s(%s, %s)" % (rv[1], O(rv[2]), O(rv[3]))
    if k == 'un': return "%s(%s)" % (rv[1], O(rv[2]))
    if k == 'cast': return "%s as %s [%s]" % (O(rv[2]), rv[3], rv[1])
    if k == 'agg':
        d = rv[1]; lab = d.get('adt', d.get('def', d['k'])) + ("::"+d['vn'] if d.get('vn') else "")
        return "%s{%s}" % (lab, ", ".join(O(o) for o in rv[2]))
    if k == 'discr': return "discr(%s)" % P(rv[1])
    return str(rv)
for id, b in f.bodies.items():
    if pat == id or (pat.endswith('$') and id.endswith(pat[:-1])) or (not pat.endswith('$') and pat in id and '--exact' not in sys.argv):
        print("==", id, b.loc(), "vis", b.vis)
        for i, l in enumerate(b.locals):
            print("   _%d: %s %s" % (i, l[0], b.var_name(i) or ""))
        for i in range(b.nblocks()):
            print(" bb%d%s:" % (i, " (cleanup)" if b.is_cleanup(i) else ""))
            for s in b.stmts(i):
                if s[0] == '=': print("     %s = %s" % (P(s[1]), RV(s[2])))
                else: print("     ", s)
            t = b.term(i)
            k = t['k']
            if k == 'call':
                print("     %s = %s(%s) -> bb%s unwind %s   [l%d]" % (P(t['dest']), callee_name(t) or O(t['f'].get('ptr')), ", ".join(O(a) for a in t['args']), t['t'], t['u'], t['l']))
            elif k == 'switch':
                print("     switch %s %s else bb%d" % (O(t['op']), t['arms'], t['else']))
            elif k in ('goto',): print("     goto bb%d" % t['t'])
            elif k == 'drop': print("     drop %s -> bb%d" % (P(t['p']), t['t']))
            elif k == 'assert': print("     assert %s == %s (%s) -> bb%d" % (O(t['cond']), t['exp'], t['msg'], t['t']))
            else: print("     ", k)
