#!/usr/bin/env python3
"""Regenerates /verif/MANIFEST.json from the tables below (single source of truth)."""
import json, os
HERE = os.path.dirname(os.path.dirname(os.path.abspath(__file__)))

NA = [
 ("C01", "equality of the values two graphs compute over all programs/inputs/seeds is a runtime-value property; no necessary structural clause beyond those decided under C02/C04/C06"),
 ("C05", "numeric error bound over all inputs and random tapes of an arithmetic protocol; not visible in code shape"),
 ("C13", "round-trip equalities over all integers/widths/shapes are value-level; the one structural facet (lossy narrowing) is claimed under C10"),
 ("C18", "ordering/stability of runtime data; no static argument in reach"),
 ("C20", "real-analysis approximation bounds over dense domains"),
]

# id -> (category, text, design_ref, level_note, technique)
CLAIMS = {}

def claim(pid, cat, text, ref, note, tech):
    CLAIMS[pid] = (cat, text, ref, note, tech)

claim("C08", "proof",
      "Decides the 'two parameterisations never collide' clause exhaustively: for every impl of CustomOperationBody (all are enumerated from the type-checked program) every field of the operation's derived Eq/Hash identity flows into get_name, the literal name texts of distinct operations differ, and the instantiation caches are keyed by exactly (op, argument types) and the reported name is only used to name the glued graph, never to look one up, and glued graphs do not inherit names of auxiliary graphs (C08.G); every field consumed by instantiate() takes part in equality and hash at every nesting level, so two behaviours never share a cache key (C08.E); a custom node's type is taken only from its instantiation or the instantiation cache, so what type-checks can be instantiated (C08.T). Meaning-preservation of the instantiated graphs is NOT decided.",
      "DESIGN.md section 3, C08",
      "Trusted: rustc MIR + impl/ADT tables, the ccfacts dump, the value-flow engine (may-analysis: 'flows into a formatting argument / branch' is taken as 'appears in the name').",
      "custom MIR value-flow lint over all CustomOperationBody impls (rustc_private driver + Python rules)")

claim("C12", "other",
      "Decides structural necessary conditions of 'malformed input is an error, not a crash' and of round-trip completeness, exhaustively over the decoder layer (all bodies reachable from Context/Value/CustomOperation deserialize up to the public graph API): no unwrap/expect/panic!/checked-index construct outside a reasoned allow-table (C12.P); every index derived from the deserialized struct is guarded by a comparison of the same datum against len() of a container of the same element type (C12.I); decoded nodes always go through type inference (C12.A); writer, reader and deep-equality cover the same field set and nothing hash-ordered is serialized (C12.F); every derived Serialize impl writes every field (C12.S); the envelope version is an equality test that gates decoding (C12.V). Deep equality / identical evaluation after a round trip as a behavioural fact is NOT decided.",
      "DESIGN.md section 3, C12",
      "Trusted: call-graph over resolved callees (serde-derived visitors are trusted not to panic), the API stop set (robustness of add_node etc. is C09/C11), the allow-table (1 entry) and the derived-field tables printed in the evidence.",
      "call-graph layer scan + guard-dominance rule on MIR (custom rustc_private lint)")

claim("C11", "other",
      "Decides the mechanisms behind 'a finalized graph or context rejects every mutation' and 'a failed call has no effect', on every control-flow path of every function that mutably borrows a GraphBody/ContextBody (enumerated from the program, classification derived, not frozen): finalized-guard dominance / set-once setters / finalizers / protected private helpers / type-cache writers (C11.G); in add_node_internal every error exit after the node was pushed passes through remove_last_node, which unregisters names, annotations, cached type and pops the node; the size counter is only written on success (C11.R); no error exit is reachable after an effective write to a shared body and paired name tables are updated together (C11.B); each of the six dependency checks precedes the creation of the node (C11.D). Arbitrary API histories as such are NOT explored.",
      "DESIGN.md section 3, C11",
      "Trusted: MIR CFG, the finalized-test recogniser (is_finalized() call or read of a `finalized` field), infeasible-edge pruning restricted to is_err/is_ok/is_some/is_none correlations on single-definition locals.",
      "guard-dominance and must-pass-through rules on MIR CFGs (custom rustc_private lint)")

claim("C04", "other",
      "Decides the structural content of mask freshness for every program at once, because it is decided on the compiler's own code: per Operation variant (all 54, by abstract interpretation of the dispatchers) constant folding and de-duplication cannot apply to input/PRF/randomizing operations (C04.F, C04.D); uniquify_prf_id is a strict counter and passes the renumbered operation for PRF variants and the unchanged one otherwise (C04.U); the pipeline runs instantiate -> inline -> uniquify and nothing duplicating afterwards (C04.P); the is_randomizing table equals the set of evaluator arms that use the PRNG (C04.R); optimizer/inline never construct random operations (C04.C); the dangling pass only skips non-input nodes that the output does not need (C04.X). Counter distinctness in a concrete compiled graph is NOT observed; it follows from these clauses.",
      "DESIGN.md section 3, C04",
      "Trusted: the abstract interpreter (sparse conditional constant propagation over MIR with enum-variant tags; unknown calls are TOP), MIR construction, callee resolution.",
      "variant-conditioned abstract interpretation + dominance/value-flow rules on MIR (custom rustc_private lint)")

claim("C02", "other",
      "Decides structural necessary conditions over ALL protocol-building code (mpc/**, optimizer/**), hence for every compiled program: Send annotations are only placed on nop() results (C02.S, 44 sites); every protocol nop() receives a Send (C02.N); elements of a 3-out-of-3 zero sharing never reach a function's result un-sent (C02.Z - reports the known finding in mpc_psi); every Operation variant translated by an interactive protocol has its dependencies reshared by the planner and a marked node enters the mapping only via reshare() - for every Operation variant, with the membership tests taken to be true, every path to the mapping passes through reshare() or a multiplication told to reshare (C02.K, per variant by abstract interpretation); the de-duplication key contains annotations, annotated nodes are never folded and the meta-operation pass never lets getters see through an annotated NOP (C02.O); literal party indices are valid (C02.P); the inliner puts a body's Send annotations on every inlined copy (C02.I); ownership typing of the truncation protocols, oblivious transfer (all six role assignments) and the bit-by-public-integer product (C02.W). That every value a party uses is derivable by that party (a per-node ownership type) is NOT decided.",
      "DESIGN.md section 3, C02",
      "Trusted: the may-value-flow engine (imprecision can only add producers, i.e. cause a report), the exceptions table for un-sent NOPs (1 entry), the list of interactive helpers, MIR construction.",
      "builder value-flow (producer sets, taint) + variant-conditioned abstract interpretation over MIR (custom rustc_private lint)")
claim("C19", "other",
      "Decides only the share-provenance clause of the compiled join (the property's own last mechanism): rules S/N/Z of C02 restricted to mpc/mpc_psi.rs - Send only on NOPs, every NOP sent, zero-sharing elements sent before use as replicated shares; plus the party-arithmetic (D) and component-locality (H) rules on the same file. Reports the known finding (zero_pad_column, share_column, random_pad_columns). Relational semantics of joins are NOT decided.",
      "DESIGN.md section 3, C19",
      "Same trusted base as C02.",
      "builder value-flow (producer sets, taint) over MIR (custom rustc_private lint)")

claim("C06", "other",
      "Decides the interface/bookkeeping half of the property on the code of the four passes, optimize_context and uniquify_prf_id, i.e. for every graph they are ever given: every re-created node gets the source node's annotations and name on every path to the mapping (C06.A); nodes are visited in get_nodes() order and Input nodes are never skipped (C06.I, per variant by abstract interpretation); the recorded type is get_type() of the very node whose operation is copied and only the tabled modules may skip inference (C06.T); each pass marks the mapped output and the four mappings are chained in data-dependence order (C06.O); A2B/B2A cancellation is guarded by scalar-type equality (C06.B); the de-duplication key keeps operand order except for commutative operations (C06.K); the dangling pass drops only unneeded non-inputs (C06.X); an operation whose evaluation draws from the PRNG is classified as randomizing and is neither folded nor merged (C06.R/F/D, shared with C04). That the optimised graph computes the same function is NOT decided.",
      "DESIGN.md section 3, C06",
      "Trusted: may-value-flow (a wrong extra producer can only cause a report), abstract interpreter, MIR construction; the table of modules allowed to call add_node_with_type.",
      "must-pass-through + value-flow provenance + variant-conditioned abstract interpretation on MIR (custom rustc_private lint)")
claim("C09", "other",
      "Decides 'an operation whose arguments do not fit is rejected, not crashed' for the partial accessors of Type (derived: get_scalar_type/get_shape/get_dimensions) at all call sites of the type-inference slice: assuming any inadmissible variant for the receiver value, guards on the same value make the call unreachable, or every producer of the value is an admissible constructor / validated container element / struct field with an invariant / guarded argument (C09.K); constant dependency indices of all dispatchers stay within the arity table for every Operation variant (C09.A); every other panic construct of the slice is explained by a derived partial function whose call sites exclude the bad variants, a checked map lookup or a tabled reason (C09.U); indices derived from operation parameters are range-checked (C09.X); no guard compares an expression with itself (C09.S); evaluator arms that can only panic are diverted by evaluate_graph (C09.E); nodes are only created in add_node_internal and add_node infers the type (C09.F); evaluate_graph never frees the value of the output node (C09.O); a rejected node is rolled back completely, cached type included (C09.R, shared with C11.R). That each computed value has the inferred shape, and panic-freedom of general index arithmetic, are NOT decided.",
      "DESIGN.md section 3, C09",
      "Trusted: abstract interpreter over Type/Operation variant tags (unknown calls are TOP), value-flow engine, the recognition of table-level validation loops, MIR construction.",
      "guard analysis by variant-conditioned abstract interpretation of MIR + provenance rules (custom rustc_private lint)")

claim("C10", "other",
      "Decides only the clause the property singles out ('structural operations convert elements through 64-bit integers'): every <=64-bit reader of element data reachable from SimpleEvaluator::evaluate_node is applied to a scalar type that is provably <= 64 bit (constant, constructor over a constant, or an operand fixed by type inference - tabled with the place that fixes it), per Operation variant. Numerical results of the operations are NOT decided.",
      "DESIGN.md section 3, C10",
      "Trusted: the tables of operands/sites constrained by type inference (13 + 2 entries, each with its reason), value-flow engine, abstract interpreter for variant reachability.",
      "type-provenance rule over MIR value-flow, per Operation variant (custom rustc_private lint)")

claim("C14", "other",
      "Decides the layout clause across the three sibling implementations (TypedValue::get_local_shares_for_each_party, ReplicatedShares::secret_share_for_parties, mpc::utils::share_vector): the 3x3 matrix (party, slot) -> (source, index) is recovered from the MIR; party p holds shares p and p+1 of the secret's sharing in their own slots and a PRNG-only value in the third; the matrices agree (C14.L); in each sharing the first two shares are independent PRNG draws and the third depends on the secret and both of them through a subtraction (C14.S); no random draw is replicated in random.rs (C14.U); thorough tier: the split_parties binary hands party j element j of one sharing per input (C14.B). Reconstruction over all types/values and uniformity as a distribution are NOT decided.",
      "DESIGN.md section 3, C14",
      "Trusted: dependency closure of the value-flow engine (all calls except PRNG draws, len/type queries are taken as value-propagating), positional recovery of vec![..] aggregates.",
      "positional value-flow recovery on MIR with sibling cross-check (custom rustc_private lint)")
claim("C15", "other",
      "Decides the effect clauses: the PRF object has no state besides the key schedule, its output functions only read self and use a PrfSession created in the same call from the counter, in the same arithmetic form in both output functions (C15.P); no path from Prf::output_*, PrfSession::* or the PRNG methods reaches OS randomness/time/environment, and seeded construction does not either (C15.E, call-graph + abstract interpretation with Some(seed)); the evaluator's per-key PRF cache is keyed by the bytes the cached Prf is built from and both cache branches evaluate the node's own (counter, type) (C15.C). Bias, permutation validity and value domains are NOT decided.",
      "DESIGN.md section 3, C15",
      "Trusted: resolved call graph of the crate (external crates only by callee name patterns: OsRng, getrandom, SystemTime, thread_rng, ...), value-flow engine.",
      "effect analysis over the resolved call graph + field-write and provenance rules on MIR (custom rustc_private lint)")

claim("C03", "other",
      "Decides two necessary conditions named in the property's mechanisms, for every compiled program because they are decided on the compiler's code: outputs go only to listed parties - in reveal_output no Send is reachable with an empty party list, the first receiver derives from output_parties, every further Send is guarded by output_parties.contains(Party(x)) for the x that becomes the receiver (C03.R); in the masking protocols the property names (resharing, oblivious transfer, both truncations, input sharing) every message has a PRF/random/zero-share term in its additive closure (C03.M; payloads of all other Send sites are classified in the evidence for information only); where every pseudo-random term of a message can be resolved to a key-triple component or a zero-share index, at least one is not computable by the receiver (C03.H, 3 sites); the resharing planner and sanity_pass agree on the set of product operations, so no private product leaves a party un-re-randomised (C03.K, shared with C02.K). The distributional statement itself (views are identically distributed) is NOT decided.",
      "DESIGN.md section 3, C03",
      "Trusted: value-flow engine with an additive closure (add/subtract/sum/nop), closure-result summarisation, the list of masking protocols taken from the property's mechanism list.",
      "guard reachability by abstract interpretation + additive-closure provenance on MIR (custom rustc_private lint)")
claim("C07", "other",
      "Decides the clause 'a body that draws randomness is instantiated afresh for every inlined copy' through its mechanism, the ephemeral binding discipline, on every control-flow path of all 7 binding sites in inline/**: assign_input_nodes -> exactly one recursively_inline_graph -> unassign_nodes of the same graph before the next binding, loop back edge or normal return (C07.B); recursively_inline_graph skips a node only if it is bound (then it is an Input or the function diverges) and otherwise always creates a node; unassign_nodes removes every bound node (C07.F); every inlined copy receives the source node's annotations on the node created in that iteration (C07.A). Equivalence of the inlined graph, prefix-sum strategies and vector lengths 0/1/16 are NOT decided.",
      "DESIGN.md section 3, C07",
      "Trusted: MIR CFG, recognition of error exits, abstract interpreter for the assumed membership-test outcomes.",
      "typestate (pairing/ordering) rule on MIR CFGs (custom rustc_private lint)")

claim("C17", "other",
      "Decides ONE of the four clauses, for every input: 'the multiplexer returns its second operand where the selector bit is 1 and its third where it is 0'. The builder Mux::instantiate is interpreted over an affine abstract domain (for each selector value, the output node as a linear form of the two choices; coefficients mod 2 for bit operands), separately for the bit-typed and the arithmetic branch; the form must be exactly arg1 for selector=1 and arg2 for selector=0 (C17.M). The domain is exact for this builder, so the verdict holds for all operand values, widths and broadcast shapes. The adder, clip and long-division clauses are NOT decided (value-level circuit correctness).",
      "DESIGN.md section 3, C17",
      "Trusted: the algebra of Add/Subtract/Multiply/MixedMultiply/ones on bit and integer arrays (elementwise, modular), the order of Graph::input calls as argument order, value-flow engine; operations outside the domain make a branch unjudged (reported in the evidence), never a verdict.",
      "affine abstract interpretation of a graph builder over its MIR producer graph (custom rustc_private lint)")

claim("C16", "other",
      "Decides ONE clause, for every input: 'minimum / maximum are comparison + multiplexer wired in the right orientation, with the operation's signed mode handed to the comparison'. Min::instantiate and Max::instantiate are read as terms Mux(Cmp(p, q), x, y) over their two inputs (E9, analysis/cmpsel.py: producer graph of the builder's MIR, vec![..] literals, reshape-only helpers checked on their bodies); since the operands are touched only through one comparison and one selection, the three orderings first<second, first=second, first>second decide the result for every width, signedness and broadcast shape (C16.O); the comparison's signed_comparison field must originate in self.signed_comparison (C16.S). The correctness of the comparison circuits (two-bit state, shrink, msb flip, bit pull-out) is NOT decided; the multiplexer's orientation is decided under C17.M.",
      "DESIGN.md section 3, C16",
      "Trusted: the documented meaning of the six comparison operations by name, C17.M for Mux, the order of Graph::input calls as argument order, value-flow engine; a builder using operations outside the domain is unjudged (reported), never a verdict.",
      "exact finite-ordering abstract interpretation of a graph builder over its MIR producer graph (custom rustc_private lint)")

ALL = ["C%02d" % i for i in range(1, 21)]

def main():
    na_ids = {p for p, _ in NA}
    pending = [p for p in ALL if p not in CLAIMS and p not in na_ids]
    na = [{"property_id": p, "reason": r} for p, r in NA]
    for p in pending:
        na.append({"property_id": p, "reason": "check not built yet (planned in DESIGN.md); not claimed until its rule runs"})
    checks = []
    for pid in sorted(CLAIMS):
        cat, text, ref, note, tech = CLAIMS[pid]
        checks.append({
            "property_id": pid,
            "quick_cmd": "./check %s --tier quick" % pid,
            "thorough_cmd": "./check %s --tier thorough" % pid,
            "evidence_file": "evidence/%s.json" % pid,
            "replay_cmd_template": "./check %s --explain {path}" % pid,
            "engine": "ccfacts+rules",
            "level_claimed": {"category": cat, "text": text, "design_ref": ref},
            "level_note": note,
            "technique": tech,
        })
    m = {
        "version": 1,
        "setup_cmd": "cd driver && CARGO_NET_OFFLINE=true cargo +nightly build --release --offline && cd .. && python3 -m analysis.extract quick",
        "hooks": {
            "guard": "ciphercore_verif",
            "enable": "none needed: the analysis reads rustc's MIR of the unmodified sources (no instrumentation in /repo); the only /repo commits are unguarded 'fix:' repairs",
            "baseline_off_cmd": "cd /repo && cargo test --workspace --no-fail-fast --offline",
            "source_commits": [],
            "add_only": True,
        },
        "engines": [
            {"name": "ccfacts", "path": "driver/", "serves_properties": sorted(CLAIMS),
             "kind_free_text": "rustc_private driver (RUSTC_WORKSPACE_WRAPPER under cargo +nightly check) dumping MIR, ADTs and impls of the workspace crates as JSON facts"},
            {"name": "rules", "path": "analysis/", "serves_properties": sorted(CLAIMS),
             "kind_free_text": "Python static-analysis engines over the facts: CFG/dominators/must-pass (cfg.py), reaching-definitions value-flow (flow.py), variant-conditioned pruning, per-property rule modules (rules/Cxx.py)"},
        ],
        "checks": checks,
        "not_applicable": na,
        "notes": "All checks are static: they re-extract facts from /repo's current working tree (cached by a hash of all sources) and never run ciphercore code. known_findings.json lists genuine defects kept as findings and the fix: commits made.",
    }
    with open(os.path.join(HERE, "MANIFEST.json"), "w") as fh:
        json.dump(m, fh, indent=1)
        fh.write("\n")

if __name__ == "__main__":
    main()
