#!/usr/bin/env python3
"""run tools/selftest.py over all seeded changes and mutants in N parallel shards; prints the merged result"""
import os, subprocess, sys
HERE = os.path.dirname(os.path.dirname(os.path.abspath(__file__)))
n = int(sys.argv[1]) if len(sys.argv) > 1 else 4
names = []
for base in ("seeded", "mutants"):
    bd = os.path.join(HERE, base)
    names += sorted(d for d in os.listdir(bd) if os.path.exists(os.path.join(bd, d, "meta.json")))
shards = [names[i::n] for i in range(n)]
procs = []
for i, sh in enumerate(shards):
    f = open("/tmp/selftest-par-%d.log" % i, "w")
    procs.append((subprocess.Popen([sys.executable, os.path.join(HERE, "tools", "selftest.py")] + sh, stdout=f, stderr=subprocess.STDOUT, cwd=HERE), f))
bad = 0
for p, f in procs:
    p.wait()
    f.close()
tot = okc = 0
for i in range(n):
    for line in open("/tmp/selftest-par-%d.log" % i):
        parts = line.split()
        if len(parts) >= 2 and parts[1] in ("PASS", "FAIL"):
            tot += 1
            okc += parts[1] == "PASS"
            if parts[1] == "FAIL":
                print(line.rstrip()[:300])
print("selftest (parallel): %d/%d as expected" % (okc, tot))
