#!/usr/bin/env python3
"""Regenerates the catch table of DESIGN.md (between the CATCH-TABLE markers) from seeded/*/meta.json and mutants/*/meta.json."""
import json, os, re
HERE = os.path.dirname(os.path.dirname(os.path.abspath(__file__)))
rows = []
for base in ("seeded", "mutants"):
    bd = os.path.join(HERE, base)
    for d in sorted(os.listdir(bd)):
        mp = os.path.join(bd, d, "meta.json")
        if not os.path.exists(mp):
            continue
        m = json.load(open(mp))
        exp = m.get("expect", {})
        caught = "; ".join("%s: %s" % (p, "silent" if e == "silent" else ", ".join(x.split("|")[0] if x.startswith("C") and "." in x.split("|")[0] else x for x in (e if isinstance(e, list) else [e])))
                           for p, e in sorted(exp.items()))
        what = m.get("what") or m.get("note") or ""
        kind = m.get("kind", "")
        ver = ""
        vl = os.path.join(bd, d, "verify.log")
        if os.path.exists(vl):
            t = open(vl).read()
            m = re.search(r"suite_with_patch_exit=(\d+) passed=(\d+) failed=(\d+)", t)
            # the baseline is the 453 unit tests (nextest does not run doc tests); a run cut by the time limit during
            # the doc tests still counts when all 453 unit tests passed and nothing failed
            ok_suite = bool(m) and int(m.group(3)) == 0 and int(m.group(2)) >= 453
            with_fail = bool(re.search(r"demo_with_patch\[[^\]]*\]_exit=(?!0)", t))
            without_ok = bool(re.search(r"demo_without_patch\[[^\]]*\]_exit=0", t))
            ver = "confirmed" if (ok_suite and with_fail and without_ok) else "see verify.log"
        rows.append((base + "/" + d, kind, what.replace("|", "/")[:150], caught.replace("|", "/"), ver))
out = ["| change | kind | what it does | expected verdicts (rule that reports it) | re-confirmed |", "|---|---|---|---|---|"]
for r in rows:
    out.append("| `%s` | %s | %s | %s | %s |" % r)
p = os.path.join(HERE, "DESIGN.md")
s = open(p).read()
s = re.sub(r"<!-- CATCH-TABLE-BEGIN -->.*<!-- CATCH-TABLE-END -->", "<!-- CATCH-TABLE-BEGIN -->\n" + "\n".join(out) + "\n<!-- CATCH-TABLE-END -->", s, flags=re.S)
open(p, "w").write(s)
print(len(rows), "rows")
