#!/usr/bin/env python3
"""Apply a behaviour-preserving refactoring (patch.diff) to a scratch copy of /repo, re-extract, run ALL claimed checks.
usage: tools/try_benign.py <patch.diff> ...   -> prints alarms (false alarms if the refactoring is truly benign)"""
import json, os, shutil, subprocess, sys, tempfile
HERE = os.path.dirname(os.path.dirname(os.path.abspath(__file__)))
sys.path.insert(0, HERE)
ALL = [c["property_id"] for c in json.load(open(os.path.join(HERE, "MANIFEST.json")))["checks"]]


def run(patch):
    tmp = tempfile.mkdtemp(prefix="ccverif-benign-")
    try:
        work = os.path.join(tmp, "repo")
        subprocess.check_call(["rsync", "-a", "--exclude", "target", "--exclude", ".git", "/repo/", work + "/"])
        r = subprocess.run(["git", "apply", "--unsafe-paths", "--directory", work, patch], cwd="/", stdout=subprocess.PIPE,
                           stderr=subprocess.STDOUT, text=True)
        if r.returncode != 0:
            return None, "patch does not apply: " + r.stdout[-300:]
        from analysis import extract
        try:
            fdir, th, info = extract.extract("quick", repo=work)
        except SystemExit as e:
            return None, "does not build"
        alarms = []
        for pid in ALL:
            env = dict(os.environ, VERIF_EVIDENCE_DIR=os.path.join(tmp, "ev"))
            p = subprocess.run([os.path.join(HERE, "check"), pid, "--facts", fdir], cwd=HERE, env=env, stdout=subprocess.PIPE,
                               stderr=subprocess.STDOUT, text=True)
            if p.returncode != 0:
                alarms.append((pid, "\n".join(l for l in p.stdout.splitlines() if "[C" in l and "KNOWN" not in l)[:1500]))
        return alarms, ""
    finally:
        shutil.rmtree(tmp, ignore_errors=True)


if __name__ == "__main__":
    for pth in sys.argv[1:]:
        alarms, err = run(os.path.abspath(pth))
        if alarms is None:
            print("%-40s ERROR %s" % (pth, err))
        elif not alarms:
            print("%-40s silent on all %d checks" % (pth, len(ALL)))
        else:
            print("%-40s ALARMS:" % pth)
            for pid, txt in alarms:
                print("   %s: %s" % (pid, txt))
        sys.stdout.flush()
