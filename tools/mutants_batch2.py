#!/usr/bin/env python3
import sys, os
sys.path.insert(0, os.path.dirname(os.path.abspath(__file__)))
from mkmutant import mk
B = "ciphercore-base/src/"
mk("m-c09-guard-segcumsum", {"C09": ["C09.K|type_inference::TypeInferenceWorker::process_node|get_shape"]}, [(B + "type_inference.rs",
   "                if !input_t.is_array() {\n                    return Err(runtime_error!(\n                        \"First argument must be an array: {input_t:?}\"\n                    ));\n                }\n", "")],
   "SegmentCumSum loses its is_array guard: a scalar first argument panics in get_shape")
mk("m-c09-concat-validate", {"C09": ["C09.K"]}, [(B + "type_inference.rs",
   "                for t in &node_dependencies_types {\n                    if !t.is_array() {\n                        return Err(runtime_error!(\n                            \"All inputs of Concatenate must be arrays, got {t:?}\"\n                        ));\n                    }\n                }\n", "")],
   "Concatenate no longer validates that all inputs are arrays")
mk("m-c09-arity", {"C09": ["C09.A"]}, [(B + "type_inference.rs",
   "        | Operation::Assert(_) => Some(2),", "        | Operation::Assert(_) => Some(1),")],
   "arity table entry of Assert lowered: dependency 1 is read although only one dependency is guaranteed")
mk("m-c09-broadcast-validate", {"C09": ["C09.K"]}, [(B + "broadcast.rs",
   "        if !x.is_scalar() && !x.is_array() {\n            return Err(runtime_error!(\n                \"Can broadcast only scalars and arrays, got {x:?}\"\n            ));\n        }\n", "")],
   "broadcast_arrays no longer rejects non-array/non-scalar elements: broadcast_pair panics on a tuple")
mk("b-c09-guard-match", {"C09": "silent"}, [(B + "type_inference.rs",
   "                if !input_t.is_array() {\n                    return Err(runtime_error!(\n                        \"First argument must be an array: {input_t:?}\"\n                    ));\n                }\n",
   "                match input_t {\n                    Type::Array(_, _) => {}\n                    _ => {\n                        return Err(runtime_error!(\n                            \"First argument must be an array: {input_t:?}\"\n                        ))\n                    }\n                }\n")],
   "benign: is_array guard re-spelled as a match on the type", kind="benign")
