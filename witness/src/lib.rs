//! E5 - compile-fail witnesses: the *outside* half of the who-may-construct / who-may-call rules.
//! Each witness is paired with a compiling twin that differs only by the offending line, so a witness
//! cannot pass merely because a path is wrong.  Run with `cargo +nightly test --doc` (error codes are
//! only checked on nightly).

/// C09.F / C11: a `Node` cannot be fabricated outside `graphs.rs` (private field `body`).
/// ```compile_fail,E0451
/// use ciphercore_base::graphs::{create_context, Node};
/// let c = create_context().unwrap();
/// let g = c.create_graph().unwrap();
/// let n = g.input(ciphercore_base::data_types::scalar_type(ciphercore_base::data_types::BIT)).unwrap();
/// let forged = Node { body: unsafe { std::mem::zeroed() } };
/// let _ = (n, forged);
/// ```
/// twin:
/// ```
/// use ciphercore_base::graphs::{create_context, Node};
/// let c = create_context().unwrap();
/// let g = c.create_graph().unwrap();
/// let n: Node = g.input(ciphercore_base::data_types::scalar_type(ciphercore_base::data_types::BIT)).unwrap();
/// let _ = n;
/// ```
pub struct NodeCannotBeForged;

/// C11: `Graph` / `Context` cannot be fabricated either.
/// ```compile_fail,E0451
/// use ciphercore_base::graphs::Graph;
/// let forged = Graph { body: unsafe { std::mem::zeroed() } };
/// ```
/// ```compile_fail,E0451
/// use ciphercore_base::graphs::Context;
/// let forged = Context { body: unsafe { std::mem::zeroed() } };
/// ```
/// twin:
/// ```
/// use ciphercore_base::graphs::{create_context, Context, Graph};
/// let c: Context = create_context().unwrap();
/// let g: Graph = c.create_graph().unwrap();
/// let _ = g;
/// ```
pub struct GraphAndContextCannotBeForged;

/// C09.F / C11.R: the node-creating / rollback internals are not callable from outside.
/// ```compile_fail,E0624
/// use ciphercore_base::graphs::{create_context, Operation};
/// let c = create_context().unwrap();
/// let g = c.create_graph().unwrap();
/// let _ = g.add_node_internal(vec![], vec![], Operation::NOP, None);
/// ```
/// ```compile_fail,E0624
/// use ciphercore_base::graphs::create_context;
/// use ciphercore_base::data_types::{scalar_type, BIT};
/// let c = create_context().unwrap();
/// let g = c.create_graph().unwrap();
/// let n = g.input(scalar_type(BIT)).unwrap();
/// let _ = g.remove_last_node(n);
/// ```
/// ```compile_fail,E0624
/// use ciphercore_base::graphs::create_context;
/// use ciphercore_base::data_types::{scalar_type, BIT};
/// let c = create_context().unwrap();
/// let g = c.create_graph().unwrap();
/// let n = g.input(scalar_type(BIT)).unwrap();
/// let _ = c.unregister_node(n);
/// ```
/// twin (the public way to add a node):
/// ```
/// use ciphercore_base::graphs::{create_context, Operation};
/// use ciphercore_base::data_types::{scalar_type, BIT};
/// let c = create_context().unwrap();
/// let g = c.create_graph().unwrap();
/// let n = g.input(scalar_type(BIT)).unwrap();
/// let _ = g.add_node(vec![n], vec![], Operation::NOP).unwrap();
/// ```
pub struct InternalsNotCallable;

/// C11 / C12: the shared body of a context is unreachable (private field).
/// ```compile_fail,E0616
/// use ciphercore_base::graphs::create_context;
/// let c = create_context().unwrap();
/// let _ = &c.body;
/// ```
/// twin:
/// ```
/// use ciphercore_base::graphs::create_context;
/// let c = create_context().unwrap();
/// let _ = c.get_graphs();
/// ```
pub struct ContextBodyUnreachable;

/// C15.P: the PRF object and its session are not nameable outside the crate, so no outside code can
/// keep a `Prf` alive across calls or hand it state.
/// ```compile_fail,E0603
/// use ciphercore_base::random::Prf;
/// ```
/// ```compile_fail,E0603
/// use ciphercore_base::random::PrfSession;
/// ```
/// twin:
/// ```
/// use ciphercore_base::random::PRNG;
/// let _ = PRNG::new(Some([0u8; 16])).unwrap();
/// ```
pub struct PrfNotNameable;
